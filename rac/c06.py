"""C06 bounded stand-in (carries the character-level half, DESIGN section 4 C06): all pairs of
access paths of depth <= 3 over an adversarial key pool; `==`, hash and dict membership must agree
with structural path equality; identical expressions over equal refs are equal and hash equally;
a large family of similar keys must not collapse into few hash buckets."""
import itertools
import os
import sys
sys.path.insert(0, os.path.dirname(os.path.dirname(os.path.abspath(__file__))))
from rac.common import Rac, PRELUDE

KEYS = ["a", "b", "a']['b", "a'].b", "a\"]", "a.b", "d['a']", "é", "1", 1, -1, -2, 1.5, (1,), ("a", 1), "a b", "", "'", "[", "x.y']"]
ATTRS = ["a", "b", "é", "ab", "a1"]


def main():
    rac = Rac("C06")
    import xdeps
    quick = rac.tier == "quick"
    steps = [("i", k) for k in KEYS] + [("a", k) for k in ATTRS]

    def build(r, path):
        cur = r
        for kind, k in path:
            cur = cur[k] if kind == "i" else getattr(cur, k)
        return cur

    def src(path):
        s = "r"
        for kind, k in path:
            s += f"[{k!r}]" if kind == "i" else f".{k}"
        return s
    depth = 2 if quick else 3
    paths = [p for n in range(1, depth + 1) for p in itertools.product(steps, repeat=n)]
    if depth == 3:
        paths = [p for p in paths if len(p) < 3 or rac.rng.random() < 0.04]
    rac.section("pairs", f"all pairs of paths of depth <= {depth} over {len(KEYS)} item keys (quotes, brackets, dots, text that looks "
                f"like another path, unicode, ints, negative ints, floats, tuples) and {len(ATTRS)} attribute names, built twice "
                "independently: a == b, hash(a) == hash(b) and dict lookup must hold exactly for structurally equal paths; "
                "non-trivial = the two paths differ", f"{len(paths)} paths, all ordered pairs")
    m1 = xdeps.Manager()
    r1 = m1.ref({}, "d")
    m2 = xdeps.Manager()
    r2 = m2.ref({}, "d")
    A = [build(r1, p) for p in paths]
    B = [build(r2, p) for p in paths]
    table = {a: i for i, a in enumerate(A)}
    if len(table) != len(A):
        rac.fail("dict-collapse", f"{len(A)} distinct paths occupy only {len(table)} dict entries", PRELUDE, "BaseRef.__eq__")
    budget_hit = False
    for i, a in enumerate(A):
        ha = hash(a)
        for j, b in enumerate(B):
            same = paths[i] == paths[j]
            rac.case((i, j), nontrivial=not same, sample=(src(paths[i]), src(paths[j])) if (i + j) % 97 == 0 else None)
            eq = a == b
            if eq != same or (same and ha != hash(b)) or (table.get(b) == i) != same:
                script = PRELUDE + "import xdeps\nm1 = xdeps.Manager(); r = m1.ref({}, 'd'); a = " + src(paths[i]) + \
                    "\nm2 = xdeps.Manager(); r = m2.ref({}, 'd'); b = " + src(paths[j]) + \
                    f"\nsame = {same}\nprint(repr(a), repr(b), a == b, hash(a) == hash(b))\nassert (a == b) == same and (not same or hash(a) == hash(b)) and (({{a: 1}}.get(b) == 1) == same)\n"
                rac.fail(f"pair {src(paths[i])} | {src(paths[j])}",
                         f"paths {src(paths[i])} and {src(paths[j])} (same path: {same}): == gives {eq}, hashes equal: {ha == hash(b)}, dict lookup hits: {table.get(b) == i}",
                         script, "BaseRef.__eq__")
        if rac.out_of_time(0.7):
            budget_hit = True
            break
    if budget_hit:
        rac.sections["pairs"]["exhaustive"] = False
    rac.section("expressions", "expressions of identical structure over independently built equal refs are equal and hash "
                "equally; structurally different ones are unequal", "34 expression shapes (incl. pairs that differ only in parts with colliding hashes, and sign-normalised spellings of one value), all pairs")
    shapes = ["r['a'] + r['b']", "r['b'] + r['a']", "r['a'] - 1", "1 - r['a']", "-r['a']", "abs(r['a'])", "r['a'] * r['b']",
              "r['a'] ** 2", "r['n']['x'] + 1", "r['n'].x + 1", "(r['a'] + 1) * 2", "r['a'] + (1 * 2)",
              # structurally different expressions whose parts have COLLIDING hashes (hash(-1) == hash(-2), 1 == 1.0 == True)
              "r['l'][-1] * r['a']", "r['l'][-2] * r['a']", "r['a'] * -1", "r['a'] * -2", "-r['l'][-1]", "-r['l'][-2]",
              "round(r['a'], -1)", "round(r['a'], -2)", "r['a'] + 1.0", "r['a'] + True", "abs(r['l'][-1])", "abs(r['l'][-2])",
              "r['a'] ** -1", "r['a'] ** -2",
              # different structure, same value: must not be confused by a prettier printed form
              "r['a'] + (-3)", "r['a'] - 3", "r['a'] - (-3)", "r['a'] + 3", "r['a'] + (-0.5)", "r['a'] - 0.5",
              "(-3) + r['a']", "r['a'] + -3.0"]
    E1 = [eval(s, dict(r=r1)) for s in shapes]
    E2 = [eval(s, dict(r=r2)) for s in shapes]
    for i, j in itertools.product(range(len(shapes)), repeat=2):
        same = i == j
        rac.case(("expr", i, j), nontrivial=not same, sample=(shapes[i], shapes[j]))
        if (E1[i] == E2[j]) != same or (same and hash(E1[i]) != hash(E2[j])):
            rac.fail(f"expr {shapes[i]} | {shapes[j]}", f"expressions {shapes[i]} / {shapes[j]}: == {E1[i] == E2[j]}, hash equal {hash(E1[i]) == hash(E2[j])}",
                     PRELUDE + f"import xdeps\nr = xdeps.Manager().ref({{}}, 'd'); a = {shapes[i]}\nr = xdeps.Manager().ref({{}}, 'd'); b = {shapes[j]}\nassert (a == b) == {same} and ({not same} or hash(a) == hash(b))\n",
                     "BinOpExpr.__cinit__")
    rac.section("consistency", "pairs of call expressions that differ only in the ORDER of their keyword arguments (equal or not is the "
                "library's choice): a == b implies hash(a) == hash(b) and a dict/set lookup hit, a != b implies no hit", "6 call shapes, all pairs")

    class F0:
        @staticmethod
        def f(*a, **k):
            return 0
    fr0 = xdeps.Manager().ref(F0, "f")
    calls = ["fr.f(r['a'], gain=r['b'], offset=1)", "fr.f(r['a'], offset=1, gain=r['b'])", "fr.f(gain=r['b'], offset=1)",
             "fr.f(offset=1, gain=r['b'])", "fr.f(r['a'], z=1, y=2, x=r['b'])", "fr.f(r['a'], x=r['b'], y=2, z=1)"]
    C1 = [eval(s, dict(r=r1, fr=fr0)) for s in calls]
    C2 = [eval(s, dict(r=r2, fr=fr0)) for s in calls]
    for i, j in itertools.product(range(len(calls)), repeat=2):
        a, b = C1[i], C2[j]
        eq = a == b
        hit = {a: 1}.get(b) == 1 and b in {a}
        rac.case(("consistency", i, j), nontrivial=i != j, sample=(calls[i], calls[j]))
        if (eq and (hash(a) != hash(b) or not hit)) or (not eq and hit) or (i == j and not eq):
            rac.fail(f"consistency {calls[i]} | {calls[j]}", f"{calls[i]} / {calls[j]}: == {eq}, hash equal {hash(a) == hash(b)}, dict/set lookup hits {hit}",
                     PRELUDE + "import xdeps\nclass F:\n    @staticmethod\n    def f(*a, **k): return 0\nfr = xdeps.Manager().ref(F, 'f')\n"
                     f"r = xdeps.Manager().ref({{}}, 'd'); a = {calls[i]}\nr = xdeps.Manager().ref({{}}, 'd'); b = {calls[j]}\n"
                     "eq = a == b; hit = {a: 1}.get(b) == 1 and b in {a}\nprint(a, b, eq, hash(a) == hash(b), hit)\n"
                     f"assert not (eq and (hash(a) != hash(b) or not hit)) and not (not eq and hit) and ({i != j} or eq)\n", "CallRef.__cinit__")
    rac.section("routes", "the same access path obtained by the two construction routes -- assignment (owner[key] = expr / owner.name = expr, which "
                "files the target ref in manager.tasks) and read (owner[key] / owner.name) -- is one path: the read-route ref finds the task, "
                "has the expression attached, is equal to and hashes like the filed key", "keys incl. numpy integer / float / bool scalars and attribute names")
    import numpy as np
    RK = [k for k in KEYS] + [np.int64(2), np.int32(-1), np.uint8(1), np.int64(0), np.float64(1.5), np.bool_(True), np.str_("q"), 2, 0, True]
    for k in RK:
        for kind in ("item", "attr"):
            if kind == "attr" and not (isinstance(k, str) and k.isidentifier()):
                continue
            mm = xdeps.Manager()
            dd = dict(a=1.0, v={}, o=type("O", (), {})())
            rr = mm.ref(dd, "d")
            try:
                if kind == "item":
                    rr["v"][k] = rr["a"] + 1
                    rd = rr["v"][k]
                else:
                    setattr(rr["o"], k, rr["a"] + 1)
                    rd = getattr(rr["o"], k)
            except Exception as ex:      # noqa
                continue
            filed = [t for t in mm.tasks if str(t) == str(rd)] or list(mm.tasks)
            ok = rd in mm.tasks and rd._expr is not None and any(rd == t and hash(rd) == hash(t) for t in mm.tasks)
            rac.case(("routes", kind, repr(k), type(k).__name__), sample=(kind, repr(k)))
            if not ok:
                ksrc = (f"np.{type(k).__name__}({k.item()!r})" if isinstance(k, np.generic) else repr(k))
                body = (f"r['v'][k] = r['a'] + 1\nrd = r['v'][k]\n" if kind == "item" else "setattr(r['o'], k, r['a'] + 1)\nrd = getattr(r['o'], k)\n")
                rac.fail(f"routes {kind} {k!r} {type(k).__name__}", f"{kind} key {k!r} ({type(k).__name__}): the task was filed under {filed[0]!r}; the ref built by reading "
                         f"the same path is {rd!r}: in manager.tasks {rd in mm.tasks}, expression attached {rd._expr is not None}",
                         PRELUDE + f"import xdeps\nimport numpy as np\nk = {ksrc}\nm = xdeps.Manager(); d = dict(a=1.0, v={{}}, o=type('O', (), {{}})()); r = m.ref(d, 'd')\n"
                         + body + "print(list(m.tasks), repr(rd))\nassert rd in m.tasks and rd._expr is not None\n", "BaseRef.__getitem__")
    rac.section("rebuilt", "every node class: the same structure obtained by another construction route (copy.copy, "
                "the class applied to __reduce__'s arguments, CallRef kwargs as dict vs tuple of pairs, evaluation of the "
                "printed form) is equal and hashes equally", "24 expression shapes (incl. item-mode and attribute-mode container references) x 6 routes (copy, deepcopy, pickle, __reduce__, rebuilt, kwargs spellings)")
    import copy
    import math
    import xdeps.refs as R

    class F:
        @staticmethod
        def f(*a, **k):
            return 0
    fr = xdeps.Manager().ref(F, "f")
    more = ["r['a'] + r['b']", "-r['a']", "abs(r['a'])", "round(r['a'], 2)", "round(r['a'])", "divmod(r['a'], r['b'])",
            "math.floor(r['a'])", "fr.f(r['a'], 2)", "fr.f(r['a'], k=r['b'])", "fr.f(k=1, j=r['a'])", "fr.f()",
            "R.CallRef(fr.f, (r['a'],), {'k': 2, 'j': r['b']})", "R.CallRef(fr.f, (r['a'],), (('k', 2), ('j', r['b'])))",
            "R.LiteralExpr(3) + r['a']", "r['n']['x'] * r['l'][0]", "r['n'].x ** 2", "r[r['k']]", "(r['a'] < 2) | (r['b'] > 1)",
            # the container references themselves (item-mode and attribute-mode) and paths below them
            "r", "r['n']", "ra", "ra.c", "ra.c.d", "ra.c + r['a']"]
    import pickle

    class Env:
        pass
    ra1, ra2 = xdeps.Manager().refattr(Env(), "env"), xdeps.Manager().refattr(Env(), "env")
    for src_ in more:
        e = eval(src_, dict(r=r1, ra=ra1, fr=fr, R=R, math=math))
        routes = {"copy.copy": lambda q: copy.copy(q), "reduce": lambda q: q.__reduce__()[0](*q.__reduce__()[1]),
                  "rebuilt": lambda q: eval(src_, dict(r=r2, ra=ra2, fr=fr, R=R, math=math)),
                  "copy.deepcopy": lambda q: copy.deepcopy(q), "pickle": lambda q: pickle.loads(pickle.dumps(q))}
        if isinstance(e, R.CallRef):
            routes["kwargs-as-dict"] = lambda q: R.CallRef(q._func, q._args, dict(q._kwargs))
            routes["kwargs-as-pairs"] = lambda q: R.CallRef(q._func, q._args, tuple(q._kwargs))
        for rn, route in routes.items():
            try:
                e2 = route(e)
            except Exception as ex:      # noqa
                continue
            rac.case(("rebuilt", src_, rn), nontrivial=True, sample=(src_, rn))
            # (a container reference is of the same kind afterwards: the next step below it builds the same path)
            step_ok = type(e2) is type(e) and (not isinstance(e, R.MutableRef) or (e2.zz == e.zz and hash(e2.zz) == hash(e.zz) and type(e2.zz) is type(e.zz)))
            if not (e == e2) or hash(e) != hash(e2) or {e: 1}.get(e2) != 1 or not step_ok:
                route_src = {"copy.copy": "e2 = copy.copy(e)", "reduce": "e2 = e.__reduce__()[0](*e.__reduce__()[1])",
                             "copy.deepcopy": "e2 = copy.deepcopy(e)", "pickle": "import pickle; e2 = pickle.loads(pickle.dumps(e))",
                             "rebuilt": "r = xdeps.Manager().ref({}, 'd'); ra = xdeps.Manager().refattr(Env(), 'env'); e2 = " + src_,
                             "kwargs-as-dict": "e2 = R.CallRef(e._func, e._args, dict(e._kwargs))",
                             "kwargs-as-pairs": "e2 = R.CallRef(e._func, e._args, tuple(e._kwargs))"}[rn]
                scr = "\n".join([PRELUDE, "import xdeps, copy, math", "import xdeps.refs as R", "class F:",
                                 "    @staticmethod", "    def f(*a, **k): return 0",
                                 "class Env: pass",
                                 "fr = xdeps.Manager().ref(F, 'f'); r = xdeps.Manager().ref({}, 'd'); ra = xdeps.Manager().refattr(Env(), 'env')", "e = " + src_, route_src,
                                 "print(e, e2, hash(e), hash(e2), type(e), type(e2))",
                                 "assert e == e2 and hash(e) == hash(e2) and {e: 1}.get(e2) == 1 and type(e) is type(e2)",
                                 "if isinstance(e, R.MutableRef): assert e2.zz == e.zz and hash(e2.zz) == hash(e.zz) and type(e2.zz) is type(e.zz), (e.zz, e2.zz, type(e.zz), type(e2.zz))", ""])
                rac.fail(f"rebuilt {src_} via {rn}", f"{src_} rebuilt via {rn}: == {e == e2}, hash equal {hash(e) == hash(e2)}, same kind of reference {type(e2) is type(e)}, "
                         f"same path one step below {step_ok}",
                         scr, type(e).__name__ + ".__cinit__")
    rac.section("collisions", "hash spread over a family of similar keys: a hash that ignores the key would pass the equality "
                "contract, so the number of distinct hashes is bounded from below", "N similar keys, >= 99% distinct hashes", exhaustive=False)
    N = 5000 if quick else 20000
    hs = {hash(r1[f"k{n}"]) for n in range(N)} | {hash(r1[n]) for n in range(N)} | {hash(getattr(r1, f"k{n}")) for n in range(N)}
    rac.case(("collisions", N), sample=dict(keys=3 * N, distinct_hashes=len(hs)))
    if len(hs) < 0.99 * 3 * N:
        rac.fail("collisions", f"{3 * N} similar refs have only {len(hs)} distinct hashes", PRELUDE +
                 f"import xdeps\nr = xdeps.Manager().ref({{}}, 'd')\nhs = {{hash(r['k%d' % n]) for n in range({N})}}\nassert len(hs) > 0.99 * {N}, len(hs)\n", "ItemRef.__cinit__")
    return rac.finish()


if __name__ == "__main__":
    sys.exit(main())
