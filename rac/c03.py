"""C03 bounded stand-in: the contract IdxWF (contracts/tasks.py: indices == F(registered tasks),
count-exact) evaluated on the real Manager after every operation of a history, plus the
behavioural clauses of the statement: verify() passes, clone()/refresh() do not change the
indices, and a manager rebuilt from the surviving definitions only reacts identically to
follow-up assignments."""
import copy
import itertools
import os
import sys
sys.path.insert(0, os.path.dirname(os.path.dirname(os.path.abspath(__file__))))
from rac.common import Rac, PRELUDE
from rac import mgrgen as G


def F(m):
    """reference index state from the registered tasks only (independent of Manager code)"""
    rdeps, deptasks, tartasks, rtasks = {}, {}, {}, {}
    tasks = list(m.tasks.items())
    for tid, t in tasks:
        for d in t.dependencies:
            for x in t.targets:
                rdeps.setdefault(d, {}).setdefault(x, 0)
                rdeps[d][x] += 1
            deptasks.setdefault(d, {})[tid] = 1
        for r in t.targets:
            tartasks.setdefault(r, {})[tid] = 1
    for wid, wt in tasks:
        for rid, rt in tasks:
            c = len(set(wt.targets) & set(rt.dependencies))
            if c:
                rtasks.setdefault(wid, {})[rid] = c
    return dict(rdeps=rdeps, deptasks=deptasks, tartasks=tartasks, rtasks=rtasks)


def indices(m):
    return {name: {k: dict(v) for k, v in getattr(m, name).items() if len(v)}
            for name in ("rdeps", "deptasks", "tartasks", "rtasks")}


def diff_indices(a, b):
    out = []
    for name in a:
        if a[name] != b[name]:
            keys = set(a[name]) | set(b[name])
            for k in keys:
                if a[name].get(k) != b[name].get(k):
                    out.append(f"{name}[{k}]: manager {a[name].get(k)} vs F(tasks) {b[name].get(k)}")
    return out


FOLLOW = [("val", ("a",), 7.5), ("val", ("n", "x"), -2.0), ("val", ("b",), 0.25), ("val", ("l", 0), 3.5)]

IDX_TAIL = '''
from collections import Counter
def F(m):
    rd, dt, tt, rt = {}, {}, {}, {}
    for tid, t in m.tasks.items():
        for dd in t.dependencies:
            for x in t.targets: rd.setdefault(dd, Counter())[x] += 1
            dt.setdefault(dd, {})[tid] = 1
        for x in t.targets: tt.setdefault(x, {})[tid] = 1
    for wid, wt in m.tasks.items():
        for rid, rt_ in m.tasks.items():
            c = len(set(wt.targets) & set(rt_.dependencies))
            if c: rt.setdefault(wid, {})[rid] = c
    return dict(rdeps={k: dict(v) for k, v in rd.items()}, deptasks=dt, tartasks=tt, rtasks=rt)
have = {n: {k: dict(v) for k, v in getattr(m, n).items() if len(v)} for n in ("rdeps", "deptasks", "tartasks", "rtasks")}
want = F(m)
for n in have:
    assert have[n] == want[n], (n, "manager", have[n], "F(tasks)", want[n])
m.verify()
'''


def run_history(rac, ops, follow=True):
    w, orc = G.World(), G.Oracle()
    done = []
    k1_seen = False
    for op in ops:
        if not G.legal(orc, op):
            return False
        done.append(op)
        orc.apply(op)
        hist = "; ".join(G.opstr(o) for o in done)
        try:
            w.apply(op)
            bad = diff_indices(indices(w.m), F(w.m))
            if bad:
                rac.fail("history " + hist, f"C03 after [{hist}]: indices != F(registered tasks): {bad[:3]}",
                         G.history_script(done, IDX_TAIL), "Manager.unregister")
                return True
            w.m.verify()
            # a removed definition no longer acts: right after a replacement the data are what the surviving definitions give
            # (once a declared ordering cycle -- known finding K1 of C01 -- has occurred in the history a dependant may have been
            #  left stale by it: the values are no longer attributable to removed definitions)
            k1_seen = k1_seen or w.k1_seen or bool(orc.sibling_feed() or G.declared_cycle(w.m))
            # (Manager.load registers definitions without running them: from then on the data are not comparable with the definitions)
            k1_seen = k1_seen or op[0] == "load"
            if op[0] in ("val", "expr", "unreg") and not k1_seen:
                exp, act = orc.expected(), w.actual()
                badv = [(G.locstr(l), act[l], exp[l]) for l in G.LOCS if not G.close(exp[l], act[l])]
                if badv:
                    rac.fail("history " + hist, f"C03 after [{hist}]: {badv[0][0]} = {badv[0][1]!r}, the surviving definitions give {badv[0][2]!r} "
                             "(a removed definition still acted)", G.history_script(done, IDX_TAIL + f"assert {exp[[l for l in G.LOCS if G.locstr(l) == badv[0][0]][0]]!r} == "
                             + badv[0][0] + ", " + badv[0][0] + "\n"), "Manager.set_value")
                    return True
        except Exception as ex:          # noqa
            rac.fail("history " + hist, f"C03 after [{hist}]: raised {type(ex).__name__}: {ex}",
                     G.history_script(done, IDX_TAIL), "Manager.unregister")
            return True
    if not follow:
        return True
    hist = "; ".join(G.opstr(o) for o in done)
    try:
        # clone / refresh never change the index state
        before = indices(w.m)
        cl = w.m.clone()
        if indices(cl) != before:
            rac.fail("clone " + hist, f"C03 [{hist}]: clone() has different indices", G.history_script(
                done, "c = m.clone()\nfor n in ('rdeps','rtasks','deptasks','tartasks'):\n    a={k:dict(v) for k,v in getattr(m,n).items() if len(v)}; b={k:dict(v) for k,v in getattr(c,n).items() if len(v)}\n    assert a==b,(n,a,b)\n"), "Manager.clone")
        w.m.refresh()
        if indices(w.m) != before:
            rac.fail("refresh " + hist, f"C03 [{hist}]: refresh() changed the indices", G.history_script(
                done, "b={n:{k:dict(v) for k,v in getattr(m,n).items() if len(v)} for n in ('rdeps','rtasks','deptasks','tartasks')}\nm.refresh()\na={n:{k:dict(v) for k,v in getattr(m,n).items() if len(v)} for n in ('rdeps','rtasks','deptasks','tartasks')}\nassert a==b\n"), "Manager.refresh")
        # fresh manager with the surviving definitions only, over equal data
        w2 = G.World()
        w2.data.clear()
        w2.data.update(copy.deepcopy(w.data))
        for loc, d in orc.defs.items():
            expr = build(w2, d)
            w2.m.register(w2.xdeps.tasks.ExprTask(w2.ref(loc), expr))
        qa = {G.locstr(l): (str(w.ref(l)._expr), sorted(map(str, w.m.tartasks[w.ref(l)])),
                            sorted(map(str, w.m.find_deps([w.ref(l)])))) for l in G.LOCS}
        qb = {G.locstr(l): (str(w2.ref(l)._expr), sorted(map(str, w2.m.tartasks[w2.ref(l)])),
                            sorted(map(str, w2.m.find_deps([w2.ref(l)])))) for l in G.LOCS}
        if qa != qb:
            k = next(k for k in qa if qa[k] != qb[k])
            rac.fail("queries " + hist, f"C03 [{hist}]: query answers for {k} differ from a fresh manager: {qa[k]} vs {qb[k]}",
                     G.history_script(done, IDX_TAIL), "Manager.unregister")
        for fop in FOLLOW:
            if fop[1] in orc.defs or w.k1_seen or G.declared_cycle(w.m):
                continue        # (a declared ordering cycle = known finding K1 of C01: the order inside it is arbitrary in both managers)
            w.apply(fop)
            w2.apply(fop)
            if not all(G.close(w.actual()[l], w2.actual()[l]) for l in G.LOCS):
                rac.fail("followup " + hist, f"C03 [{hist}] then {G.opstr(fop)}: differs from a fresh manager with the surviving definitions",
                         G.history_script(done + [fop], IDX_TAIL), "Manager.set_value")
                break
    except Exception as ex:      # noqa
        rac.fail("post " + hist, f"C03 [{hist}]: follow-up raised {type(ex).__name__}: {ex}",
                 G.history_script(done + FOLLOW, IDX_TAIL), "Manager.unregister")
    return True


def build(w, d):
    if d[0] == "chain":
        import operator
        return {"+=": operator.add, "*=": operator.mul, "-=": operator.sub}[d[2]](build(w, d[1]), d[3])
    return w.build(d[0], d[1])


def main():
    rac = Rac("C03")
    quick = rac.tier == "quick"
    alpha = G.op_alphabet(small=True)
    L = 3 if quick else 4
    rac.section("histories", f"every history of length <= {L} over {len(alpha)} operations; after every step the four "
                "indices are compared, count by count, with F(registered tasks) and verify() is called; at the end clone/"
                "refresh/queries/follow-up assignments are compared with a manager rebuilt from the surviving definitions; "
                "non-trivial = contains a removal or re-definition of a defined location",
                f"length<={L}, |alphabet|={len(alpha)}")
    for n in range(1, L + 1):
        for ops in itertools.product(alpha, repeat=n):
            if n > 2 and rac.out_of_time(0.6):
                rac.sections["histories"]["exhaustive"] = False
                rac.exhaustive = False
                break
            if run_history(rac, ops, follow=True):
                defined = set()
                nt = False
                for o in ops:
                    if o[0] == "expr":
                        if o[1] in defined:
                            nt = True
                        defined.add(o[1])
                    elif o[0] in ("val", "unreg") and o[1] in defined:
                        nt = True
                        defined.discard(o[1])
                rac.case(ops, nontrivial=nt, sample=[G.opstr(o) for o in ops])
    B, C, A_, NX = ("b",), ("c",), ("a",), ("n", "x")
    lalpha = [("load", [(B, "dbl", (A_,)), (B, "inc", (A_,))], True), ("load", [(B, "dbl", (A_,)), (B, "inc", (A_,))], False),
              ("load", [(C, "sum", (A_, B)), (NX, "dbl", (A_,))], True), ("load", [(B, "dbl", (A_,)), (C, "inc", (B,)), (B, "rsub", (A_,))], True),
              ("load", [(C, "inc", (NX,)), (C, "inc", (NX,))], True),
              ("expr", B, "neg", (A_,)), ("expr", C, "mix", (B, A_)), ("val", B, 4.0), ("val", A_, 2.0), ("unreg", B), ("unreg", C)]
    LL = 3 if quick else 4
    rac.section("loads", f"every history of length <= {LL} over {len(lalpha)} operations with Manager.load(dump, overwrite=True / False) of dumps that define the SAME "
                "location more than once (a base dump followed by overrides), mixed with definitions, plain assignments and removals: indices == F(registered "
                "tasks), verify(), queries and follow-up assignments equal to a fresh manager holding the surviving definitions (with overwrite the LAST entry "
                "for a location survives, without it the first); non-trivial = a load is present", f"length<={LL}, |alphabet|={len(lalpha)}")
    for n in range(1, LL + 1):
        for ops in itertools.product(lalpha, repeat=n):
            if n > 2 and rac.out_of_time(0.75):
                rac.sections["loads"]["exhaustive"] = False
                rac.exhaustive = False
                break
            if not any(o[0] == "load" for o in ops):
                continue
            if run_history(rac, ops):
                rac.case(("loads",) + tuple(map(repr, ops)), nontrivial=True, sample=[G.opstr(o) for o in ops])
    rac.section("failed-loads", "a Manager.load whose k-th entry cannot be evaluated (unknown name, division by zero in the text, unknown container) raises; "
                "the caller catches it and goes on: whatever definitions the manager then reports, its indices equal F(those tasks), verify() passes and "
                "a follow-up assignment leaves the data a manager rebuilt from dump() over equal data produces", "5 prior states x 6 dumps x failing position 0..2 x overwrite")
    FL = '''
import xdeps, copy
def mk(prior):
    d = dict(a=1.0, b=2.0, c=3.0, e=4.0, g=5.0, n=dict(x=0.5, y=1.5))
    m = xdeps.Manager(); r = m.ref(d, "d")
    for lhs, rhs in prior:
        exec(lhs + " = " + rhs, dict(d=r))
    return d, m, r
'''
    fenv = {}
    exec(FL, fenv)
    priors = [[], [("d['b']", "d['a'] * 2")], [("d['b']", "d['a'] * 2"), ("d['c']", "d['b'] + d['a']")],
              [("d['n']['y']", "d['n']['x'] + d['a']"), ("d['c']", "d['n']['y'] * 2")], [("d['c']", "d['a'] + 1"), ("d['e']", "d['c'] * d['a']")]]
    goods = [[("d['b']", "(d['a'] + 1)"), ("d['c']", "(d['a'] * 3)")], [("d['c']", "(d['b'] + d['a'])"), ("d['e']", "(d['a'] - 1)")],
             [("d['e']", "(d['a'] * 2)"), ("d['g']", "(d['e'] + d['a'])")], [("d['n']['y']", "(d['a'] * 4)"), ("d['b']", "(d['n']['y'] + 1)")],
             [("d['b']", "(d['c'] + 1)"), ("d['g']", "(d['b'] * d['a'])")], [("d['c']", "(d['a'] * 5)"), ("d['c']", "(d['a'] * 6)")]]
    bads = [("d['g']", "(nosuchname + 1)"), ("zz['g']", "(d['a'] + 1)"), ("d['g']", "(1 // 0)")]
    for pi, prior in enumerate(priors):
        for gi, good in enumerate(goods):
            for pos in range(len(good) + 1):
                for ow in (True, False):
                    bad = bads[(pi + gi + pos) % len(bads)]
                    dump = good[:pos] + [bad] + good[pos:]
                    body = (f"d, m, r = mk({prior!r})\ntry:\n    m.load({dump!r}, overwrite={ow})\n    raise SystemExit('load did not raise')\nexcept (NameError, ZeroDivisionError, KeyError):\n    pass\n"
                            f"r['a'] = 2.5\nd2, m2, r2 = mk([])\nd2.update(copy.deepcopy({{k: v for k, v in d.items()}}))\n"
                            "m2.load(m.dump())\nr['a'] = -3.0; r2['a'] = -3.0\nprint(d, d2)\nassert d == d2\n")
                    rac.case((pi, gi, pos, ow), sample=dict(prior=prior, dump=dump, overwrite=ow))
                    try:
                        d, m, r = fenv["mk"](prior)
                        try:
                            m.load(dump, overwrite=ow)
                            rac.fail(f"failed-load noraise {pi} {gi} {pos} {ow}", f"C03 load({dump}) did not raise", PRELUDE + FL + body, "Manager.load")
                            continue
                        except (NameError, ZeroDivisionError, KeyError):
                            pass
                        dd = diff_indices(indices(m), F(m))
                        if dd:
                            rac.fail(f"failed-load idx {pi} {gi} {pos} {ow}", f"C03 after {prior} and a load({dump}, overwrite={ow}) that raised at entry {pos}: "
                                     f"indices != F(registered tasks): {dd[:3]}", PRELUDE + FL + body + IDX_TAIL, "Manager.load")
                            continue
                        m.verify()
                        r["a"] = 2.5
                        d2, m2, r2 = fenv["mk"]([])
                        d2.update(copy.deepcopy(d))
                        m2.load(m.dump())
                        r["a"] = -3.0
                        r2["a"] = -3.0
                        if repr(d) != repr(d2):
                            rac.fail(f"failed-load follow {pi} {gi} {pos} {ow}", f"C03 after {prior} and a failed load({dump}): a := -3.0 leaves {d}, a manager "
                                     f"rebuilt from the reported definitions leaves {d2}", PRELUDE + FL + body, "Manager.load")
                    except Exception as ex:     # noqa
                        rac.fail(f"failed-load exc {pi} {gi} {pos} {ow}", f"C03 after {prior} and a failed load({dump}, overwrite={ow}): {type(ex).__name__}: {ex}",
                                 PRELUDE + FL + body + IDX_TAIL, "Manager.load")
    from rac import sametext
    sametext.run(rac, "C03")
    from rac import failedredef
    failedredef.run(rac, "C03")
    rac.section("random", "random histories of length 6..16 (seeded; every other one with definitions that read a nested container as a whole "
                "and containers replaced by value), same checks", "150 quick / 3000 thorough", exhaustive=False)
    for _k in range(150 if quick else 3000):
        ops = G.random_history(rac.rng, rac.rng.randint(6, 16), containers=bool(_k % 2))
        run_history(rac, ops)
        rac.case(tuple(ops), sample=[G.opstr(o) for o in ops])
        if rac.out_of_time(0.9):
            break
    return rac.finish()


if __name__ == "__main__":
    sys.exit(main())
