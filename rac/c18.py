"""C18 bounded stand-in: fault injection at every point of an update.

Containers count their stores and raise `Fault` at the k-th store once armed; a user function raises when armed
(evaluation fault).  For every history h and every triggering assignment a, the fault-free run gives the store
trace T (list of (location, value)).  Then for every k < len(T): fresh world, h, arm(k), a:
  * Fault must reach the caller (not swallowed, not replaced);
  * the stores performed are exactly T[:k] (tasks before the failing one took effect, none after it ran);
  * definitions (dump), index supports, verify() are those of the fault-free run's definition step;
  * disarm, repeat a: every location equals the pull-model oracle.
"""
import copy
import itertools
import os
import sys
sys.path.insert(0, os.path.dirname(os.path.dirname(os.path.abspath(__file__))))
from rac.common import Rac, PRELUDE
from rac import mgrgen as G

FAULT_SRC = '''
class Fault(Exception):
    pass

class Ctl:
    def __init__(self):
        self.armed = None; self.count = 0; self.trace = []
    def arm(self, k):
        self.armed = k; self.count = 0; self.trace = []
    def disarm(self):
        self.armed = None; self.count = 0; self.trace = []
    def store(self, where, key, val):
        if self.armed is not None and self.count == self.armed:
            self.count += 1
            raise Fault(f"injected fault at store #{self.armed} ({where}[{key!r}])")
        self.count += 1
        self.trace.append((where, key, repr(val)))

class FDict(dict):
    def __init__(self, ctl, name, *a):
        super().__init__(*a); self._ctl = ctl; self._name = name
    def __setitem__(self, k, v):
        self._ctl.store(self._name, k, v); super().__setitem__(k, v)

class FList(list):
    def __init__(self, ctl, name, *a):
        super().__init__(*a); self._ctl = ctl; self._name = name
    def __setitem__(self, k, v):
        self._ctl.store(self._name, k, v); super().__setitem__(k, v)

class FObj:
    def __init__(self, ctl, name, **kw):
        object.__setattr__(self, "_ctl", ctl); object.__setattr__(self, "_name", name)
        for k, v in kw.items(): object.__setattr__(self, k, v)
    def __setattr__(self, k, v):
        self._ctl.store(self._name, k, v); object.__setattr__(self, k, v)

def fdata(ctl):
    return FDict(ctl, "d", {"a": 1.0, "b": 2.0, "c": 3.0, "n": FDict(ctl, "n", {"x": 1.5, "y": 2.5, "z": 4.0}),
                            "l": FList(ctl, "l", [1.0, 2.0, 3.0]), "o": FObj(ctl, "o", p=1.25, q=2.25)})
'''
exec(FAULT_SRC)


class FWorld(G.World):
    def __init__(self):
        import xdeps
        self.xdeps = xdeps
        self.ctl = Ctl()
        self.data = fdata(self.ctl)
        self.m = xdeps.Manager()
        self.r = self.m.ref(self.data, "d")


def plain(data):
    return {loc: G.get_raw(data, loc) for loc in G.LOCS}


def state(w):
    idx = {n: {str(k): sorted(map(str, v)) for k, v in getattr(w.m, n).items() if len(v)}
           for n in ("rdeps", "rtasks", "deptasks", "tartasks")}
    q = {G.locstr(l): str(w.ref(l)._expr) for l in G.LOCS}
    return dict(defs=sorted(map(tuple, w.m.dump())), idx=idx, q=q)


def build(hist):
    w, orc = FWorld(), G.Oracle()
    for op in hist:
        if not G.legal(orc, op):
            return None, None
        orc.apply(op)
        w.apply(op)
    return w, orc


def script(hist, trig, k):
    lines = G.history_script(hist + [trig]).splitlines()
    # rebuild the script over fault-injecting containers
    head = ["import xdeps, operator", FAULT_SRC, "ctl = Ctl(); d = fdata(ctl)", "m = xdeps.Manager(); r = m.ref(d, 'd')"]
    body = lines[4:]
    trig_line = body[-1]
    pre = body[:-1]
    return "\n".join(head + pre + [
        "defs0 = None",
        f"ctl.arm({k})",
        "try:",
        f"    {trig_line}",
        "    raise SystemExit('the injected fault did not reach the caller')",
        "except Fault as ex:",
        "    print('fault reported:', ex)",
        "m.verify()",
        "ctl.disarm()",
        trig_line,
        "import math",
        "exp = __EXP__",
        "act = {k_: eval(k_) for k_ in exp}",
        "bad = {k_: (act[k_], exp[k_]) for k_ in exp if abs(act[k_] - exp[k_]) > 1e-9 * max(1, abs(exp[k_]))}",
        "assert not bad, ('after repeating the assignment: location: (actual, expected)', bad)",
    ]) + "\n"


def run_case(rac, hist, trig):
    w0, orc = build(hist)
    if w0 is None or not G.legal(orc, trig):
        return
    # fault-free reference run
    w0.ctl.arm(10 ** 9)
    try:
        w0.apply(trig)
    except Exception:      # noqa  (a history that fails without faults is C01/C03's business)
        return
    T = list(w0.ctl.trace)
    ref_state = state(w0)
    orc.apply(trig)
    exp = orc.expected()
    hs = "; ".join(G.opstr(o) for o in hist)
    ts = G.opstr(trig)
    k1 = orc.sibling_feed() or w0.k1_seen or G.declared_cycle(w0.m)
    for k in range(len(T)):
        w, _ = build(hist)
        key = f"fault at store {k} of [{ts}] after [{hs}]"
        scr = script(hist, trig, k).replace("__EXP__", repr({G.locstr(l): v for l, v in exp.items()}))
        w.ctl.arm(k)
        got = None
        try:
            w.apply(trig)
        except Fault:
            got = "Fault"
        except Exception as ex:     # noqa
            got = f"{type(ex).__name__}: {ex}"
        if got != "Fault":
            rac.fail(key, f"C18 {key}: the fault did not reach the caller unchanged (got {got or 'normal return'})", scr,
                     "Manager.run_tasks")
            continue
        if w.ctl.trace != T[:k]:
            rac.fail(key, f"C18 {key}: stores performed {w.ctl.trace} != fault-free prefix {T[:k]} (a task after the "
                     "failing one ran, or one before it did not take effect)", scr, "Manager.run_tasks")
            continue
        st = state(w)
        if st != ref_state:
            d = [k_ for k_ in st if st[k_] != ref_state[k_]]
            rac.fail(key, f"C18 {key}: after the failure {d} differ from the definitions the assignment asked for", scr,
                     "Manager.set_value")
            continue
        try:
            w.m.verify()
            w.ctl.disarm()
            w.apply(trig)
        except Exception as ex:      # noqa
            rac.fail(key, f"C18 {key}: verify()/repeat raised {type(ex).__name__}: {ex}", scr, "Manager.set_value")
            continue
        act = plain(w.data)
        bad = [(G.locstr(l), act[l], exp[l]) for l in G.LOCS if not G.close(exp[l], act[l])]
        if bad and not k1:
            rac.fail(key, f"C18 {key}: repeating the assignment does not re-establish {bad[:3]}", scr, "Manager.set_value")
        rac.case((tuple(hist), trig, k), nontrivial=k > 0 or len(T) > 1, sample=dict(history=hs, trigger=ts, fault_at=k,
                                                                                     stores=len(T)))


EVAL_SRC = '''
import xdeps
class Boom(Exception):
    pass
class Fn:
    exc = Boom
    def __init__(self):
        self.armed = False; self.calls = 0
    def g(self, x):
        self.calls += 1
        if self.armed:
            raise self.exc("evaluation fault")
        return x * 2
def make(exc=Boom):
    Fn.exc = exc
    fn = Fn(); d = {"a": 1.0, "b": 0.0, "c": 0.0, "e": 0.0, "z": 0.0}
    m = xdeps.Manager(); r = m.ref(d, "d"); f = m.ref(fn, "f")
    return fn, d, m, r, f
'''


def eval_faults(rac):
    """a fault while *evaluating* a task's expression (user function raising), at every position of a chain"""
    env = {}
    exec(EVAL_SRC, env)
    shapes = {
        "chain": ["r['b'] = r['a'] + 1", "r['c'] = f.g(r['b'])", "r['e'] = r['c'] + r['a']"],
        "first": ["r['b'] = f.g(r['a'])", "r['c'] = r['b'] + 1"],
        "diamond": ["r['b'] = r['a'] * 3", "r['c'] = f.g(r['a'])", "r['e'] = r['b'] + r['c']"],
        "consumer-first": ["r['e'] = r['c'] + 1", "r['c'] = f.g(r['b'])", "r['b'] = r['a'] - 1"],
        # the failing sub-expression sits under an operator that has an exception handler of its own (/, //, % map THEIR zero division to nan)
        "under-truediv": ["r['b'] = f.g(r['a']) / 4", "r['c'] = r['b'] + 1"],
        "under-floordiv": ["r['b'] = 3 // f.g(r['a'])", "r['c'] = r['b'] + 1"],
        "under-mod": ["r['b'] = (f.g(r['a']) + 1) % 5", "r['c'] = r['b'] + 1"],
        "under-pow": ["r['b'] = f.g(r['a']) ** 2", "r['c'] = r['b'] + 1"],
    }
    excs = ["Boom", "ZeroDivisionError", "ValueError", "KeyError", "OverflowError", "TypeError", "AttributeError",
            "IndexError", "RuntimeError", "FloatingPointError",
            # exceptions with a meaning of their own for iteration protocols / generators: still just failures of the task here
            "StopIteration", "StopAsyncIteration", "LookupError", "ArithmeticError", "AssertionError", "NotImplementedError"]
    for name, defs in shapes.items():
      for excname in excs:
        env["Boom"] = env["Boom"] if excname == "Boom" else env["Boom"]
        excls = env["Boom"] if excname == "Boom" else getattr(__import__("builtins"), excname)
        for trig in ("r['a'] = 5.0", "r['a'] = r['z'] + 2.0"):
            fn, d, m, r, f = env["make"](excls)
            loc = dict(r=r, f=f, m=m)
            for s in defs:
                exec(s, loc)
            defs0 = sorted(map(tuple, m.dump()))
            fn.armed = True
            key = f"eval fault {excname} {name} {trig}"
            scr = EVAL_SRC + f"fn, d, m, r, f = make({excname})\n" + "\n".join(defs) + f"\nfn.armed = True\ntry:\n    {trig}\n    raise SystemExit('fault swallowed')\nexcept {excname}:\n    pass\nm.verify()\nfn.armed = False\n{trig}\n" \
                "assert d['c'] == 2 * d['b'] or 'chain' not in %r, d\n" % name
            before = dict(d)
            try:
                exec(trig, loc)
                rac.fail(key, f"C18 {key}: the evaluation fault did not reach the caller", scr, "Manager.run_tasks")
                continue
            except excls:
                pass
            except Exception as ex:     # noqa
                rac.fail(key, f"C18 {key}: fault replaced by {type(ex).__name__}: {ex}", scr, "Manager.run_tasks")
                continue
            try:
                m.verify()
            except Exception as ex:     # noqa
                rac.fail(key, f"C18 {key}: verify() fails after the fault: {ex}", scr, "Manager.set_value")
                continue
            # the failing task's target and everything downstream of it must be untouched by this update
            fn.armed = False
            try:
                exec(trig, loc)
            except Exception as ex:     # noqa
                rac.fail(key, f"C18 {key}: repeating the assignment once the fault is gone raised {type(ex).__name__}: {ex}", scr, "Manager.set_value")
                continue
            # independent re-evaluation
            val = dict(d)
            a, z = val["a"], val["z"]
            expd = {"chain": dict(b=a + 1, c=2 * (a + 1), e=2 * (a + 1) + a),
                    "first": dict(b=2 * a, c=2 * a + 1),
                    "diamond": dict(b=a * 3, c=2 * a, e=a * 3 + 2 * a),
                    "consumer-first": dict(b=a - 1, c=2 * (a - 1), e=2 * (a - 1) + 1),
                    "under-truediv": dict(b=2 * a / 4, c=2 * a / 4 + 1), "under-floordiv": dict(b=3 // (2 * a), c=3 // (2 * a) + 1),
                    "under-mod": dict(b=(2 * a + 1) % 5, c=(2 * a + 1) % 5 + 1), "under-pow": dict(b=(2 * a) ** 2, c=(2 * a) ** 2 + 1)}[name]
            bad = {k_: (val[k_], v) for k_, v in expd.items() if abs(val[k_] - v) > 1e-9}
            if bad:
                rac.fail(key, f"C18 {key}: repeat does not re-establish {bad}", scr, "Manager.set_value")
            rac.case(key, nontrivial=True, sample=dict(shape=name, trigger=trig, exception=excname))


def main():
    rac = Rac("C18")
    quick = rac.tier == "quick"
    alpha = G.op_alphabet(small=True)
    exprs = [o for o in alpha if o[0] == "expr"]
    trigs = [("val", ("a",), 5.0), ("val", ("b",), -1.5), ("val", ("n", "x"), 2.0), ("expr", ("a",), "inc", (("c",),)),
             ("expr", ("b",), "dbl", (("a",),)), ("val", ("l", 0), 0.5), ("expr", ("n", "y"), "mix", (("a",), ("b",)))]
    L = 3 if quick else 4
    rac.section("store-faults", f"every history of <= {L} expression definitions x {len(trigs)} triggering assignments x a "
                "fault at every store of the update: exception propagates, stores == fault-free prefix, definitions/"
                "indices/queries as after the definition step, verify() passes, repeat re-establishes every dependant",
                f"definitions<={L} out of {len(exprs)}, triggers={len(trigs)}, every fault position")
    for n in range(1, L + 1):
        for hist in itertools.permutations(exprs, n):
            if rac.out_of_time(0.75):
                rac.sections["store-faults"]["exhaustive"] = False
                rac.exhaustive = False
                break
            for trig in trigs:
                run_case(rac, list(hist), trig)
    rac.section("knob-faults", "a LinearKnob (one / two targets) with dependants of its targets; the source is assigned and the k-th container store of "
                "the update raises (the store of the source, of a knob target, of a dependant): the fault reaches the caller, the stores done are the "
                "fault-free prefix, and repeating the same assignment after the fault is gone gives the fault-free final state (a knob that had already "
                "recorded the new source value would add nothing the second time)", "2 knob shapes x every store position x 2 source values")
    KNOB_SRC = FAULT_SRC + """
import xdeps
from xdeps.tasks import LinearKnob
def mkknob(two):
    ctl = Ctl(); d = FDict(ctl, "d", {"src": 10.0, "t0": 1.0, "t1": -1.0, "out": 0.0, "late": 0.0})
    m = xdeps.Manager(); r = m.ref(d, "d")
    m.register(LinearKnob("knob", r["src"], [0.5, 2.0][:2 if two else 1], [r["t0"], r["t1"]][:2 if two else 1]))
    r["out"] = 2 * r["t0"] + r["t1"]; r["late"] = r["out"] + 1
    r["src"] = 12.0
    return ctl, d, m, r
"""
    envk = {}
    exec(KNOB_SRC, envk)
    for two, newv in itertools.product((False, True), (20.0, 7.5)):
        ctl, d, m, r = envk["mkknob"](two)
        ctl.arm(10 ** 9)
        r["src"] = newv
        T, ref = list(ctl.trace), dict(d)
        for k in range(len(T)):
            ctl, d, m, r = envk["mkknob"](two)
            key = f"knob-fault two={two} src={newv} store {k}"
            scr = PRELUDE + KNOB_SRC + f"ctl, d, m, r = mkknob({two})\nctl.arm({k})\ntry:\n    r['src'] = {newv}\n    raise SystemExit('the injected fault did not reach the caller')\nexcept Fault as ex:\n    print('fault reported:', ex)\n" \
                f"ctl.disarm()\nr['src'] = {newv}\nprint(dict(d))\nassert dict(d) == {ref!r}, dict(d)\n"
            ctl.arm(k)
            got = None
            try:
                r["src"] = newv
            except envk["Fault"]:
                got = "Fault"
            except Exception as ex:     # noqa
                got = f"{type(ex).__name__}: {ex}"
            rac.case(("knob-fault", two, newv, k), nontrivial=True, sample=dict(two_targets=two, source=newv, fault_at=k, stores=len(T)))
            if got != "Fault":
                rac.fail(key, f"C18 {key}: the fault did not reach the caller unchanged (got {got or 'normal return'})", scr, "Manager.run_tasks")
                continue
            if ctl.trace != T[:k]:
                rac.fail(key, f"C18 {key}: stores performed {ctl.trace} != fault-free prefix {T[:k]}", scr, "LinearKnob.run")
                continue
            ctl.disarm()
            try:
                r["src"] = newv
            except Exception as ex:     # noqa
                rac.fail(key, f"C18 {key}: repeating the assignment raised {type(ex).__name__}: {ex}", scr, "Manager.set_value")
                continue
            if dict(d) != ref:
                rac.fail(key, f"C18 {key}: repeating the assignment gives {dict(d)}, the fault-free run {ref}", scr, "LinearKnob.run")
    rac.section("aliases", "definitions that hand on the very same object (b = a; c = b; small integers), so that the repeated assignment "
                "after a failed store produces objects identical to those of the failed attempt: every fault position, same checks",
                "6 crafted histories x 4 triggers")
    A_, B_, C_, NX, NY = ("a",), ("b",), ("c",), ("n", "x"), ("n", "y")
    alias_hists = [[("expr", B_, "same", (A_,))], [("expr", B_, "same", (A_,)), ("expr", C_, "same", (B_,))],
                   [("expr", B_, "same", (A_,)), ("expr", C_, "inc", (B_,))], [("expr", NX, "same", (A_,)), ("expr", NY, "same", (NX,))],
                   [("expr", C_, "same", (B_,)), ("expr", B_, "same", (A_,))], [("expr", B_, "same", (A_,)), ("expr", NX, "sum", (A_, B_))]]
    for hist in alias_hists:
        for trig in (("val", A_, 5.0), ("val", A_, 7), ("val", A_, True), ("expr", A_, "same", (("l", 0),))):
            run_case(rac, list(hist), trig)
    rac.section("eval-faults", "a user function raising while a task's expression is evaluated, chain / first / diamond / "
                "consumer-first shapes, value and expression triggers", "8 shapes x 16 exception classes x 2 triggers")
    eval_faults(rac)
    rac.section("random", "random histories of length 5..12 then a trigger, every fault position", "30 quick / 400 thorough",
                exhaustive=False)
    for _ in range(30 if quick else 400):
        if rac.out_of_time(0.97):
            break
        hist = G.random_history(rac.rng, rac.rng.randint(5, 12))
        run_case(rac, hist, rac.rng.choice(trigs))
    return rac.finish()


if __name__ == "__main__":
    sys.exit(main())
