"""C08 bounded stand-in: rows[...] / rows.indices[...] / rows.mask[...] against a naive reference selector.

Reference `sel(col, vals, selector) -> list of positions` written from the statement:
  int -> [i]; list/array of ints -> as given; bool mask -> ascending true positions; None -> all; plain slice -> range
  string 're', 're::c', with '<<k' / '>>k': case-insensitive FULL match on the index column; without count all matching
      rows; with count the c-th occurrence (negative from the last) of every matching NAME that has one; ascending; + offset
  name span a:b (strings, row designators) -> [pos(a) .. pos(b)] inclusive, either side optional
  value range lo:hi:'col' -> ascending { i : lo <= col[i] <= hi }, either bound optional (0 is a bound like any other)
rows[s1, s2] == rows[s1].rows[s2]; indices and mask describe the same rows.  The process runs under the hash seed given by
the driver; the many-names section makes a set-order dependent result differ from table order with overwhelming probability.
"""
import itertools
import os
import re
import sys
sys.path.insert(0, os.path.dirname(os.path.dirname(os.path.abspath(__file__))))
from rac.common import Rac, PRELUDE

REF_SRC = '''
import re
import numpy as np
import xdeps
def mk(col, vals=None):
    n = len(col)
    vals = list(vals) if vals is not None else [float(i) - 1 for i in range(n)]
    return xdeps.Table({"name": np.array(list(col), dtype=object), "s": np.array(vals, dtype=float), "u": np.arange(n) * 10})
def split(sel):
    name, count, offset = sel, None, 0
    if "<<" in name:
        name, o = name.split("<<", 1); offset = -int(o)
    elif ">>" in name:
        name, o = name.split(">>", 1); offset = int(o)
    if "::" in name:
        name, cstr = name.split("::", 1); count = int(cstr)
    return name, count, offset
def pos_of(col, des):
    name, count, offset = split(des) if isinstance(des, str) else (des[0], des[1], (des[2] if len(des) > 2 else 0))
    occ = [i for i, x in enumerate(col) if x == name]
    c = 0 if count is None else count
    if c < 0: c += len(occ)
    if not 0 <= c < len(occ): raise KeyError(des)
    return occ[c] + offset
def sel(col, vals, s):
    n = len(col)
    if s is None: return list(range(n))
    if isinstance(s, (int, np.integer)): return [int(s)]
    if isinstance(s, slice):
        a, b, c = s.start, s.stop, s.step
        if isinstance(a, str) or isinstance(b, str):
            ia = pos_of(col, a) if a is not None else 0
            ib = pos_of(col, b) + 1 if b is not None else n
            return list(range(n))[ia:ib]
        if isinstance(c, str):
            v = vals[c]
            return [i for i in range(n) if (a is None or a <= v[i]) and (b is None or v[i] <= b)]
        return list(range(n))[s]
    if isinstance(s, str):
        pat, count, offset = split(s)
        rx = re.compile(pat, re.IGNORECASE)
        hit = [i for i in range(n) if rx.fullmatch(col[i])]
        if count is None:
            return [i + offset for i in hit]
        out = []
        for nm in sorted(set(col[i] for i in hit)):
            occ = [i for i in range(n) if col[i] == nm]
            c = count + len(occ) if count < 0 else count
            if 0 <= c < len(occ): out.append(occ[c])
        return [i + offset for i in sorted(out)]
    s = list(s)
    if len(s) == 0: return []
    if all(isinstance(x, (bool, np.bool_)) for x in s): return [i for i, x in enumerate(s) if x]
    return [int(x) if not isinstance(x, str) else pos_of(col, x) for x in s]
def observe(t, s):
    """-> dict of what the three views report for selector s (exceptions by class name)"""
    out = {}
    for view in ("rows", "indices", "mask"):
        try:
            if view == "rows":
                r = t.rows[s]
                out[view] = (list(r["name"]), [float(x) for x in r["s"]], len(r))
            elif view == "indices":
                out[view] = [int(i) for i in np.atleast_1d(t.rows.indices[s])]
            else:
                out[view] = [bool(x) for x in t.rows.mask[s]]
        except Exception as ex:
            out[view] = type(ex).__name__
    return out
def expected(col, vals, s):
    n = len(col)
    try:
        idx = sel(col, vals, s)
    except KeyError:
        return None
    if any(not 0 <= i < n for i in idx):
        return None          # selector shifts outside the table: not constrained by the statement
    return {"rows": ([col[i] for i in idx], [float(vals["s"][i]) for i in idx], len(idx)), "indices": idx,
            "mask": [i in set(idx) for i in range(n)]}
'''
exec(REF_SRC)


def selector_src(s):
    if isinstance(s, slice):
        return "slice(%r, %r, %r)" % (s.start, s.stop, s.step)
    if isinstance(s, tuple):
        return "(" + ", ".join(selector_src(x) for x in s) + ",)"
    return repr(s)


def selectors(col, vals, rng=None):
    n = len(col)
    names = sorted(set(col))
    S = [None, slice(None), slice(1, None), slice(None, -1), slice(None, None, 2), slice(None, None, -1)]
    S += list(range(n)) + [[i] for i in range(min(n, 2))] + [[0, n - 1]] * (n > 0) + [[n - 1, 0]] * (n > 1) + [[]]
    if n:
        S += [[i % 2 == 0 for i in range(n)], [False] * n, [True] * n]
    pats = names + ["a.*", ".*", "[ab]", "A", "b|c", "zz", ".", "a|B"]
    for p in pats:
        S.append(p)
        for c in (-2, -1, 0, 1):
            S.append(f"{p}::{c}")
        S += [f"{p}>>1", f"{p}<<1", f"{p}::0>>1", f"{p}::-1<<1"]
    desigs = names + [f"{nm}::1" for nm in names] + [f"{nm}::-1" for nm in names] + ["zz"]
    for a in desigs:
        S += [slice(a, None), slice(None, a)]
        for b in desigs:
            S.append(slice(a, b))
            S.append(slice(a, b, "name"))
    for lo in (None, -1.0, 0, 0.0, 0.5, 2.0):
        for hi in (None, -1.0, 0, 0.5, 1.0, 3.0):
            S.append(slice(lo, hi, "s"))
    return S


def check(rac, col, vals, s, section_fn):
    t = mk(col, vals["s"])
    exp = expected(list(col), vals, s)
    if exp is None:
        return
    got = observe(t, s)
    rac.case((tuple(col), selector_src(s)), nontrivial=len(exp["indices"]) > 0, sample=dict(column="".join(col) if len(col) < 9 else len(col),
                                                                                         selector=selector_src(s)))
    k2 = False
    if isinstance(s, str):
        pat, cnt, _off = split(s)
        if cnt is not None and pat in col:
            others = {nm for nm in col if nm != pat and re.compile(pat, re.IGNORECASE).fullmatch(nm)}
            k2 = bool(others)
    for view in ("rows", "indices", "mask"):
        if got[view] != exp[view]:
            rac.fail(("K2:exact-name-shortcut " if k2 else "") + f"sel {''.join(col)} {selector_src(s)} {view}", f"C08 index column {list(col)}, s={list(vals['s'])}: rows.{view}[{selector_src(s)}]"
                     f" gives {got[view]}, the selector denotes {exp[view]}" if view != "rows" else
                     f"C08 index column {list(col)}, s={list(vals['s'])}: rows[{selector_src(s)}] gives {got[view]}, the selector denotes {exp[view]}",
                     PRELUDE + REF_SRC + f"col = {list(col)!r}; vals = {{'s': {list(vals['s'])!r}}}\nt = mk(col, vals['s'])\ns = {selector_src(s)}\n"
                     "got, exp = observe(t, s), expected(col, vals, s)\nprint(got); print(exp)\nassert got == exp\n", section_fn)
            return


def main():
    rac = Rac("C08")
    quick = rac.tier == "quick"
    NAMES = ("a", "b", "c")
    maxlen = 5 if quick else 6
    rac.section("selectors", f"every index column over {NAMES} of length 0..{maxlen} x every selector form (positions, lists, masks, "
                "None, slices, regex with count/offset, name spans with counts and explicit index-column step, value ranges with "
                "each bound in {None,-1,0,0.5,...}); rows / indices / mask vs the reference; non-trivial = non-empty selection",
                f"length<={maxlen}")
    for n in range(0, maxlen + 1):
        for col in itertools.product(NAMES, repeat=n):
            vals = {"s": [float(i) - 1 for i in range(n)]}
            for s in selectors(col, vals):
                check(rac, col, vals, s, "Table._get_row_indices")
            if rac.out_of_time(0.5):
                rac.sections["selectors"]["exhaustive"] = False
                rac.exhaustive = False
                break
    rac.section("regex-names", "index columns over names that match one another as case-insensitive regular expressions ('mq.1', 'MQ.1', "
                "'mqx1', 'mq11'): a selector that happens to equal a row name is still a full-match regular expression", "length 1..4 over 4 names")
    RN = ("mq.1", "MQ.1", "mqx1", "mq11")
    for n in range(1, 5):
        for col in itertools.product(RN, repeat=n):
            if rac.out_of_time(0.6):
                break
            vals = {"s": [float(i) - 1 for i in range(n)]}
            for s in list(RN) + ["mq.1::0", "MQ.1::-1", "mq.1>>0", "mq..", "mqx1::0", "Mqx1", "mq11<<0"]:
                check(rac, col, vals, s, "Table._get_regexp_indices")
    rac.section("prefix-names", "index columns over names that are proper prefixes of one another ('ip1', 'ip10', 'IP1b', 'ip5', 'e'): top-level "
                "alternations, grouped or not, in either order, with and without count / shift, denote the rows whose WHOLE name matches one alternative",
                "length 1..4 over 5 names x 14 selectors")
    PN = ("ip1", "ip10", "IP1b", "ip5", "e")
    for n in range(1, 5):
        for col in itertools.product(PN, repeat=n):
            if rac.out_of_time(0.65):
                break
            vals = {"s": [float(i) - 1 for i in range(n)]}
            for s in ["ip1|ip5", "ip5|ip1", "ip1|e", "(ip1|ip5)", "ip|e", "ip1", "ip1.*", "ip1|ip5::0", "ip1|ip5::-1", "ip1|e>>0", "e|ip1|ip10", "ip1|", "|ip1", "ip1$|e"]:
                check(rac, col, vals, s, "Table._get_regexp_indices")
    rac.section("pattern-syntax", "regular expressions whose text contains the characters the selector syntax also uses -- a single ':' (row names like "
                "'bpm:1'), '<' and '>' inside group syntax ((?:..), (?P<k>..), look-behind) -- with and without '::count' / '>>k': only a DOUBLE colon "
                "and a double angle bracket belong to the selector", "length 1..3 over 4 names x 11 selectors")
    SN = ("bpm:1", "bpm", "ip1", "ip2")
    for n in range(1, 4):
        for col in itertools.product(SN, repeat=n):
            if rac.out_of_time(0.7):
                break
            vals = {"s": [float(i) - 1 for i in range(n)]}
            for s in ["bpm:1", "bpm:1::0", "bpm:.", "(?:ip1|ip2)", "(?:ip1|ip2)::0", "(?P<k>ip)\\d", "(?P<k>ip)\\d::-1", "i(?<=i)p1", "(?:ip1|ip2)>>0", "ip[^:]", "bpm(:1)?"]:
                check(rac, col, vals, s, "Table._get_regexp_indices")
    rac.section("composition", "rows[s1, s2] == rows[s1].rows[s2] (and indices / mask of the tuple describe the same rows) for "
                "pairs of selectors", "columns of length 3..4, about 40 x 40 selector pairs", exhaustive=False)
    import numpy as np
    for col in [("a", "b", "a"), ("b", "a", "a", "c"), ("a", "a", "b", "b")]:
        vals = {"s": [float(i) - 1 for i in range(len(col))]}
        base = [s for s in selectors(col, vals) if expected(list(col), vals, s) is not None]
        pool = base[::max(1, len(base) // 45)]
        for s1, s2 in itertools.product(pool, repeat=2):
            if rac.out_of_time(0.75):
                break
            t = mk(col, vals["s"])
            try:
                t1 = t.rows[s1]
                want = t1.rows[s2]
                w = (list(want["name"]), [float(x) for x in want["s"]])
            except Exception:      # noqa  (second selector not applicable to the intermediate table)
                continue
            try:
                got_t = t.rows[s1, s2]
                g = (list(got_t["name"]), [float(x) for x in got_t["s"]])
                gi = [int(i) for i in t.rows.indices[s1, s2]]
                gm = [bool(x) for x in t.rows.mask[s1, s2]]
            except Exception as ex:     # noqa
                g, gi, gm = type(ex).__name__, None, None
            rac.case((col, selector_src(s1), selector_src(s2)), nontrivial=len(w[0]) > 0, sample=dict(column="".join(col), s1=selector_src(s1), s2=selector_src(s2)))
            ok = g == w and gi is not None and [col[i] for i in gi] == w[0] and [vals["s"][i] for i in gi] == w[1] \
                and gm == [i in set(gi) for i in range(len(col))]
            if not ok:
                rac.fail(f"comp {''.join(col)} {selector_src(s1)} {selector_src(s2)}", f"C08 column {list(col)}: rows[{selector_src(s1)}, {selector_src(s2)}] gives {g} "
                         f"(indices {gi}, mask {gm}), rows[s1].rows[s2] gives {w}", PRELUDE + REF_SRC + f"t = mk({list(col)!r})\ns1 = {selector_src(s1)}; s2 = {selector_src(s2)}\n"
                         "a = t.rows[s1, s2]; b = t.rows[s1].rows[s2]\nassert list(a['name']) == list(b['name']) and list(a['s']) == list(b['s']), (list(a['name']), list(b['name']))\n"
                         "i = t.rows.indices[s1, s2]\nassert list(t['name'][i]) == list(b['name'])\n"
                         "m = t.rows.mask[s1, s2]\nassert [bool(x) for x in m] == [k in set(int(q) for q in i) for k in range(len(t))], (list(m), list(i))\n", "_RowView.__getitem__")
    rac.section("after-updates", "the lookup tables are warmed by a name selector, then the index column is changed through the table API (a cell "
                "renamed by NAME, by (name, count), by position, a slice of cells, the whole column): every name-based selector "
                "(name::count, regexp::count, name spans, lists of names) denotes rows of the CURRENT index column", "3 columns x 12 updates / derivations (t * n, t + t, column and row selections of a table whose lookup tables are warm) x 13 selectors")
    UPD = ["t['name', 'a::1'] = 'zz'", "t['name', ('b', 0)] = 'a'", "t['name', 0] = 'b'", "t['name', 1:3] = ['c', 'c']",
           "t['name'] = list(t['name'])[::-1]", "t.name = [x + 'x' for x in t['name']]",
           # a table DERIVED from one whose lookup tables are warm (wave 9, C08-17: derived tables inheriting the source's tables)
           "t = t * 2", "t = t + t", "t = t.cols['name', 's'] * 3", "t = t.rows[1:]", "t = t.rows[[0, 2]] + t", "t = t._copy() * 2"]
    SELS = ["a::0", "a::1", "a::-1", "b::0", "zz::0", "c::1", ".*::0", ".*::-1", "a.*::1", "[ab]::0>>1", slice("a::0", "b::-1"), slice("b", None),
            ["a::0", "b::0"]]
    for col in [("a", "b", "a", "c", "b"), ("a", "a", "b", "a"), ("b", "a", "c", "a", "a", "b")]:
        for upd in UPD:
            t = mk(col)
            try:
                t.rows.indices["a::0"]
                t.rows.indices[".*::1"]           # (lookup tables built)
                env_u = dict(t=t)
                exec(upd, env_u)
                t = env_u["t"]                    # (an update may derive a new table and go on with it)
            except Exception:     # noqa  (update not applicable to this column)
                continue
            newcol = [str(x) for x in t["name"]]
            vals2 = {"s": [float(x) for x in t["s"]]}
            for s_ in SELS:
                exp = expected(newcol, vals2, s_)
                if exp is None:
                    continue
                got = observe(t, s_)
                rac.case((col, upd, selector_src(s_)), nontrivial=len(exp["indices"]) > 0, sample=dict(column="".join(col), update=upd, selector=selector_src(s_)))
                if isinstance(s_, str):
                    pat, cnt, _o = split(s_)
                    if cnt is not None and pat in newcol and {nm for nm in newcol if nm != pat and re.compile(pat, re.IGNORECASE).fullmatch(nm)}:
                        continue      # known finding K2 (exact-name shortcut)
                bad = next((v for v in ("rows", "indices", "mask") if got[v] != exp[v]), None)
                if bad:
                    rac.fail(f"after-update {''.join(col)} {upd} {selector_src(s_)}", f"C08 index column {list(col)} after {upd} (now {newcol}): rows.{bad}[{selector_src(s_)}] "
                             f"gives {got[bad]}, on the current column the selector denotes {exp[bad]}",
                             PRELUDE + REF_SRC + f"t = mk({list(col)!r})\nt.rows.indices['a::0']; t.rows.indices['.*::1']\n{upd}\ncol = [str(x) for x in t['name']]; vals = {{'s': [float(x) for x in t['s']]}}\n"
                             f"s = {selector_src(s_)}\ngot, exp = observe(t, s), expected(col, vals, s)\nprint(got); print(exp)\nassert got == exp\n", "Table.__setitem__")
                    break
    rac.section("many-names", "12..30 distinct names each occurring 1..3 times: 're::count' must come back in table order whatever "
                "the iteration order of a set of names is; case-insensitive matching; random value ranges", "25 quick / 400 thorough",
                exhaustive=False)
    for _ in range(25 if quick else 400):
        if rac.out_of_time(0.97):
            break
        k = rac.rng.randint(12, 30)
        names = [f"{rac.rng.choice('mqsd')}{rac.rng.choice('fxyz')}.{i}" for i in range(k)]
        col = [nm for nm in names for _ in range(rac.rng.randint(1, 3))]
        rac.rng.shuffle(col)
        vals = {"s": [round(rac.rng.uniform(-3, 3), 1) for _ in col]}
        for s in [".*::0", ".*::-1", ".*::1", "m.*::0", "M.*::-1", "[ms]x.*::0>>1", ".*\\.1.*::1", ".*",
                  slice(rac.rng.choice([None, -1.0, 0, 1.5]), rac.rng.choice([None, 0, 0.5, 2.0]), "s"),
                  slice(col[3], col[-2]), slice(col[1] + "::-1", None)]:
            check(rac, col, vals, s, "Table._get_regexp_indices")
    rac.section("dtypes+flags", "value ranges lo:hi:'col' on columns of every numeric storage type (unsigned / signed / narrow integers, float32; sorted, "
                "unsorted, constant) incl. NaN bounds; and one pattern used on two tables with DIFFERENT regex flags in one process (a table built with "
                "regex_flags=0 matches case-sensitively, a default table case-insensitively -- in either order of use)",
                "9 dtypes x 6 value lists x 25 ranges; 6 patterns x 2 orders")
    DT = '''
import re
import numpy as np
import xdeps
def mkd(vals, dtype):
    n = len(vals)
    return xdeps.Table({"name": np.array(["r%d" % i for i in range(n)], dtype=object), "v": np.array(vals).astype(dtype)})
def want_range(vals, dtype, lo, hi):
    v = np.array(vals).astype(dtype)
    return [i for i in range(len(v)) if (lo is None or lo <= v[i]) and (hi is None or v[i] <= hi)]
def mkf(col, flags=None):
    kw = {} if flags is None else dict(regex_flags=flags)
    return xdeps.Table({"name": np.array(list(col), dtype=object), "s": np.arange(len(col)) * 1.0}, **kw)
def want_names(col, pat, flags):
    rx = re.compile(pat, flags)
    return [i for i, nm in enumerate(col) if rx.fullmatch(nm)]
'''
    denv = {}
    exec(DT, denv)
    for dtype in ("uint8", "uint16", "uint64", "int8", "int32", "int64", "float32", "float64", "bool"):
        for vals in ([3, 1, 4, 0, 2], [0, 1, 2, 3, 4], [4, 3, 2, 1, 0], [2, 2, 2], [1, 0, 1, 0], [7]):
            for lo in (None, 0, 1, 2, float("nan")):
                for hi in (None, 0, 2, 3, float("nan")):
                    if lo is None and hi is None:
                        continue
                    body = f"t = mkd({vals!r}, {dtype!r})\ngot = [int(i) for i in t.rows.indices[{lo!r}:{hi!r}:'v']]\nwant = want_range({vals!r}, {dtype!r}, {lo!r}, {hi!r})\nprint(got, want)\nassert got == want\n".replace("nan", "float('nan')")
                    rac.case((dtype, tuple(vals), repr(lo), repr(hi)), sample=dict(dtype=dtype, values=vals, lo=repr(lo), hi=repr(hi)))
                    try:
                        t = denv["mkd"](vals, dtype)
                        want = denv["want_range"](vals, dtype, lo, hi)
                        got = [int(i) for i in t.rows.indices[lo:hi:"v"]]
                        gotm = [i for i, b in enumerate(t.rows.mask[lo:hi:"v"]) if b]
                        gotr = list(t.rows[lo:hi:"v"]["name"])
                        if got != want or gotm != want or gotr != ["r%d" % i for i in want]:
                            rac.fail(f"dtype-range {dtype} {vals} {lo!r} {hi!r}", f"C08 column v={vals} stored as {dtype}: rows[{lo!r}:{hi!r}:'v'] gives rows {got} "
                                     f"(mask {gotm}, names {gotr}), the selector denotes {want}", PRELUDE + DT + body, "Table._get_row_indices")
                    except Exception as ex:     # noqa
                        rac.fail(f"dtype-range {dtype} {vals} {lo!r} {hi!r}", f"C08 column v={vals} stored as {dtype}: rows[{lo!r}:{hi!r}:'v'] raised "
                                 f"{type(ex).__name__}: {ex}", PRELUDE + DT + body, "Table._get_row_indices")
    fcol = ["ip1", "MQ.1", "mq.2", "Mq.1", "end", "IP1", "mq.2"]
    for pat in ("mq.*", "MQ\\.1", "ip1", ".*1", "mq.*::1", "IP.*"):
        for order in ("sensitive-first", "default-first"):
            body = (f"col = {fcol!r}\nts, td = mkf(col, 0), mkf(col)\norder = {order!r}\n"
                    f"for t, fl in ([(ts, 0), (td, re.IGNORECASE)] if order == 'sensitive-first' else [(td, re.IGNORECASE), (ts, 0)]) * 2:\n"
                    f"    got = [int(i) for i in t.rows.indices[{pat.split('::')[0]!r}]]\n    print(fl, got)\n    assert got == want_names(col, {pat.split('::')[0]!r}, fl)\n")
            rac.case((pat, order), sample=dict(pattern=pat, order=order))
            try:
                ts, td = denv["mkf"](fcol, 0), denv["mkf"](fcol)
                seq = [(ts, 0), (td, re.IGNORECASE)] if order == "sensitive-first" else [(td, re.IGNORECASE), (ts, 0)]
                for t, fl in seq * 2:
                    base = pat.split("::")[0]
                    got = [int(i) for i in t.rows.indices[base]]
                    want = denv["want_names"](fcol, base, fl)
                    if got != want:
                        rac.fail(f"flags {pat} {order}", f"C08 index column {fcol}: rows.indices[{base!r}] on the table with regex flags {int(fl)} gives {got}, "
                                 f"the selector denotes {want} (the other table was queried with the same pattern before)", PRELUDE + DT + body, "Table._get_regexp_indices")
                        break
                    if "::" in pat:
                        cnt = int(pat.split("::")[1])
                        got2 = [int(i) for i in t.rows.indices[pat]]
                        want2 = sorted(occ[cnt] for nm in sorted(set(fcol[i] for i in want))
                                       for occ in [[i for i, x in enumerate(fcol) if x == nm]] if cnt < len(occ))
                        if got2 != want2:
                            rac.fail(f"flags {pat} {order}", f"C08 index column {fcol}: rows.indices[{pat!r}] with regex flags {int(fl)} gives {got2}, the selector "
                                     f"denotes {want2}", PRELUDE + DT + body, "Table._get_regexp_indices")
                            break
            except Exception as ex:     # noqa
                rac.fail(f"flags {pat} {order}", f"C08 flags scenario {pat} {order}: {type(ex).__name__}: {ex}", PRELUDE + DT + body, "Table._get_regexp_indices")
    return rac.finish()


if __name__ == "__main__":
    sys.exit(main())
