"""C11 bounded stand-in: printed expressions rebuild themselves; dump / load / copy_expr_from are faithful.

  print/eval : for enumerated expression trees e (every node class and operator, depth <= 2, refs and literals on either
               side, negative / float / string / bool literals, string and int and computed keys, keys containing the
               container label or quotes / brackets):  e2 = eval(str(e), ns)  has the same STRUCTURE (class and every slot,
               recursively -- the library's own == is string comparison), the same value (or raises the same exception
               class) and the same dependencies;
  dump/load  : managers from the history generator, dumped and loaded into a fresh manager over deep-copied containers:
               same definitions, same reaction to mirrored follow-up assignments; overwrite=False keeps existing ones;
  copy_expr_from : definitions of a container copied to another manager, identity and rebinding to a nested reference,
               both overwrite settings, keys that contain the label text.
"""
import copy
import itertools
import math
import operator
import os
import sys
sys.path.insert(0, os.path.dirname(os.path.dirname(os.path.abspath(__file__))))
from rac.common import Rac, PRELUDE
from rac import mgrgen as G

W = '''
import math, operator, copy
import xdeps
import xdeps.refs as R
class Fns:
    @staticmethod
    def f(x, y=10, *, k=1, mode="a"): return (x * 100 + y * 10 + k) if mode == "a" else -x
SLOTS = ("_owner", "_key", "_lhs", "_rhs", "_arg", "_op", "_params", "_func", "_args", "_kwargs")
def struct(e):
    if isinstance(e, R.Ref): return ("Ref", type(e).__name__, e._key)
    if isinstance(e, R.LiteralExpr): return struct(e._arg)       # a literal wrapper prints as (and equals) its literal
    if isinstance(e, R.BaseRef):
        return (type(e).__name__,) + tuple(struct(getattr(e, s)) for s in SLOTS if s in dir(type(e)))
    if isinstance(e, (tuple, list)): return tuple(struct(x) for x in e)
    if callable(e): return getattr(e, "__module__", "") + "." + getattr(e, "__qualname__", repr(e))
    return (type(e).__name__, e)
def world():
    d = dict(a=1.5, b=-2.25, c=3.0, i=1, k="a", lst=[10.0, 20.0, 30.0], n=dict(x=4.0, y=5.0), t=0.0, u=0.0)
    d["d_a"] = 7.0; d["it's"] = 8.0; d['q"]['] = 9.0
    m = xdeps.Manager(); r = m.ref(d, "d"); fr = m.ref(Fns, "f")
    return d, m, r, fr
def value(e):
    try:
        v = e._get_value()
        return ("value", repr(v))
    except Exception as ex:
        return ("raises", type(ex).__name__)
def roundtrip(e, m):
    """-> None if str(e) rebuilds e, else a description of the difference"""
    s = str(e)
    try:
        e2 = eval(s, {"math": math}, m.containers)
    except Exception as ex:
        return "eval(%r) raised %s: %s" % (s, type(ex).__name__, ex)
    if not isinstance(e2, R.BaseRef):
        return "eval(%r) is not an expression but %r" % (s, e2)
    if struct(e) != struct(e2):
        return "printed as %r, which rebuilds %r (structure %r) instead of %r" % (s, str(e2), struct(e2), struct(e))
    if value(e) != value(e2):
        return "printed as %r: value %r, rebuilt value %r" % (s, value(e), value(e2))
    if e._get_dependencies() != e2._get_dependencies():
        return "printed as %r: dependencies differ" % s
    return None
'''
exec(W)

LEAVES = ["r['a']", "r['n']['x']", "r['lst'][1]", "r['lst'][r['i']]", "r[r['k']]", "r['d_a']", "r[\"it's\"]", "r['q\"][']", "r['n']"]
LITS = ["2", "-3", "2.5", "-1.5", "1e-3", "-0.0", "True", "10**20", "0"]
BIN = ["+", "-", "*", "/", "//", "%", "**", "<", "<=", ">", ">=", "&", "|", "^", "<<", ">>", "@"]


def level1():
    out = []
    for op in BIN:
        for a in LEAVES[:4]:
            out.append(f"({a} {op} {LEAVES[0]})")
            for lit in LITS:
                out.append(f"({a} {op} {lit})")
                out.append(f"({lit} {op} {a})")
    for a in LEAVES:
        out += [f"(-{a})", f"(+{a})", f"(~{a})", f"abs({a})", f"round({a})", f"round({a}, 2)", f"round({a}, r['i'])", f"divmod({a}, 2)",
                f"divmod({a}, r['b'])", f"math.floor({a})", f"math.ceil({a})", f"math.trunc({a})", f"{a}._eq(2)", f"{a}._neq(r['b'])",
                f"fr.f({a})", f"fr.f({a}, 2)", f"fr.f({a}, y=r['b'])", f"fr.f({a}, k=3, mode='b')", f"fr.f(2, y={a})", f"fr.f({a}, -1)",
                f"fr.f({a}, R.LiteralExpr(-3))", f"R.LiteralExpr(2) + {a}", f"R.LiteralExpr(-2.5) ** {a}",
                f"R.BuiltinRef({a}, round, (1,))", f"{a}.real", f"{a}[0]"]
    return out


def main():
    rac = Rac("C11")
    quick = rac.tier == "quick"
    d, m, r, fr = world()
    env = dict(r=r, fr=fr, math=math, R=R, operator=operator)
    rac.section("print-eval", "expression trees over 9 leaf references (nested, computed keys, keys containing quotes / brackets / the "
                "label text), 9 literals (negative, float, huge, bool), 17 binary operators in both operand orders, unary operators, "
                "abs/round/divmod/floor/ceil/trunc with and without parameters, calls with positional and keyword arguments (string "
                "values included), nested one more level inside +, **, unary minus and a call; eval(str(e)) must rebuild the same "
                "structure, value and dependencies; non-trivial = every case", "about 1300 level-1 trees + 4 wrappers each")
    L1 = level1()
    wrappers = [None, "(-3) ** (X)", "2 - (X)", "-(X)", "fr.f(X, k=(X))", "(X) ** 2", "(X) * r['b'] + 1"]
    n_eval = 0
    for src in L1:
        for wsrc in (wrappers if not quick else wrappers[:5]):
            full = src if wsrc is None else wsrc.replace("X", src)
            try:
                e = eval(full, env)
            except Exception:      # noqa  (the expression cannot even be built, e.g. unsupported operand at build time)
                continue
            if not isinstance(e, R.BaseRef):
                continue
            n_eval += 1
            msg = roundtrip(e, m)
            rac.case(full, sample=full)
            if msg:
                rac.fail("print " + full, f"C11 expression {full}: {msg}", PRELUDE + W + f"d, m, r, fr = world()\ne = {full}\nmsg = roundtrip(e, m)\nassert msg is None, msg\n",
                         type(e).__name__ + ".__repr__")
        if rac.out_of_time(0.5):
            rac.sections["print-eval"]["exhaustive"] = False
            rac.exhaustive = False
            break
    # ------------------------------------------------------------------ dump / load
    L = 3 if quick else 4
    alpha = [o for o in G.op_alphabet(small=False) if o[0] in ("expr", "iop")]
    rac.section("dump-load", f"managers built by every sequence of <= {L} definitions / in-place updates; dump() loaded into a fresh manager "
                "over deep-copied containers: equal dump, equal containers after mirrored follow-up assignments; loading again with "
                "overwrite=False keeps the existing definitions", f"definitions<={L}")
    follow = [("val", ("a",), 7.5), ("val", ("n", "x"), -2.0), ("val", ("b",), 0.25), ("val", ("l", 0), 3.5), ("val", ("o", ".q"), 1.0)]
    for n in range(1, L + 1):
        for ops in itertools.permutations(alpha, n):
            if rac.out_of_time(0.8):
                rac.sections["dump-load"]["exhaustive"] = False
                rac.exhaustive = False
                break
            orc = G.Oracle()
            if not all(G.legal(orc, o) and (orc.apply(o) or True) for o in ops):
                continue
            if orc.sibling_feed():
                continue
            wa = G.World()
            try:
                for o in ops:
                    wa.apply(o)
            except Exception:     # noqa
                continue
            if wa.k1_seen or G.declared_cycle(wa.m):
                continue           # known finding K1 (C01)
            hist = "; ".join(G.opstr(o) for o in ops)
            key = f"dump-load [{hist}]"
            tail = "import copy\ndump = m.dump()\nd2 = copy.deepcopy(d); m2 = xdeps.Manager(); r2 = m2.ref(d2, 'd')\nm2.load(dump)\nassert sorted(m2.dump()) == sorted(dump), (m2.dump(), dump)\n" \
                "r['a'] = 7.5; r2['a'] = 7.5; r['n']['x'] = -2.0; r2['n']['x'] = -2.0\nassert repr(d) == repr(d2), (d, d2)\n"
            scr = G.history_script(list(ops), tail)
            try:
                dump = wa.m.dump()
                wb = G.World()
                wb.data.clear()
                wb.data.update(copy.deepcopy(wa.data))
                wb.m.load(dump)
                if sorted(wb.m.dump()) != sorted(dump):
                    rac.fail(key, f"C11 {key}: the loaded manager dumps {sorted(wb.m.dump())}, the original {sorted(dump)}", scr, "Manager.load")
                    continue
                wb.m.verify()
                bad = None
                for fop in follow:
                    if fop[1] in orc.defs:
                        continue
                    wa.apply(fop)
                    wb.apply(fop)
                    a, b = wa.actual(), wb.actual()
                    bad = [(G.locstr(l), a[l], b[l]) for l in G.LOCS if not G.close(a[l], b[l])]
                    if bad:
                        rac.fail(key, f"C11 {key}: after {G.opstr(fop)} original and loaded copy differ: {bad[:3]}", scr, "Manager.load")
                        break
                if not dump:
                    rac.case(ops, nontrivial=False, sample=hist)
                    continue
                # overwrite=False must keep what is there
                wc = G.World()
                wc.data.clear()
                wc.data.update(copy.deepcopy(wa.data))
                first = dump[0]
                wc.m.load([(first[0], "d['c'] * 0 + 123.0" if first[0] != "d['c']" else "d['a'] * 0 + 123.0")])
                before = wc.m.dump()
                wc.m.load(dump, overwrite=False)
                after = dict(wc.m.dump())
                if after.get(first[0]) != dict(before)[first[0]] or any(after.get(k_) != v_ for k_, v_ in dump[1:] if k_ != first[0]):
                    rac.fail(key + " overwrite=False", f"C11 {key}: load(overwrite=False) gives {after}, existing {before}, dump {dump}",
                             scr, "Manager.load")
            except Exception as ex:     # noqa
                rac.fail(key, f"C11 {key}: {type(ex).__name__}: {ex}", scr, "Manager.dump")
                continue
            rac.case(ops, sample=hist)
    # ------------------------------------------------------------------ copy_expr_from
    rac.section("copy_expr_from", "definitions of a container copied into another manager: same label, label rebound to a nested "
                "reference, two bindings at once, a binding given as a nested source reference, keys whose text contains the label, "
                "overwrite True / False", "10 crafted scenarios")
    CP = '''
import xdeps, copy
def src():
    c = {"a": 3.0, "b": 4.0, "ref_a": 5.0, "k": {"ref": 1.0, "x": 2.0}, "sub": {"a": 1.0, "c": 0.0}, "out": 0.0}
    m = xdeps.Manager(); r = m.ref(c, "ref")
    r["c"] = r["a"] + r["b"]; r["d"] = r["c"] + r["ref_a"]; r["e"] = r["k"]["ref"] * 2 + r["k"]["x"]
    r["sub"]["c"] = r["sub"]["a"] * 10
    r["out"] = 2 * r["sub"]["c"] + r["sub"]["a"] + r["a"]
    return c, m, r
def define(r):
    r["c"] = r["a"] + r["b"]; r["d"] = r["c"] + r["ref_a"]; r["e"] = r["k"]["ref"] * 2 + r["k"]["x"]
    r["sub"]["c"] = r["sub"]["a"] * 10
    r["out"] = 2 * r["sub"]["c"] + r["sub"]["a"] + r["a"]
def expected(c):
    c = copy.deepcopy(c)
    c["c"] = c["a"] + c["b"]; c["d"] = c["c"] + c["ref_a"]; c["e"] = c["k"]["ref"] * 2 + c["k"]["x"]
    c["sub"]["c"] = c["sub"]["a"] * 10; c["out"] = 2 * c["sub"]["c"] + c["sub"]["a"] + c["a"]
    return c
'''
    env2 = {}
    exec(CP, env2)
    # scenario -> (prepare the receiving manager, bindings expression or None, target container, root reference)
    scen = {
        "same label": ("c2 = copy.deepcopy(c0); m2 = xdeps.Manager(); r2 = m2.ref(c2, 'ref')", None, "c2", "r2"),
        "rebound to nested": ("c2 = {'deep': {'er': copy.deepcopy(c0)}}; m2 = xdeps.Manager(); r2 = m2.ref(c2, 'ref')", "{'ref': r2['deep']['er']}",
                              "c2['deep']['er']", "r2['deep']['er']"),
        "rebound to other label": ("c2 = copy.deepcopy(c0); m2 = xdeps.Manager(); r2 = m2.ref(c2, 'other')", "{'ref': r2}", "c2", "r2"),
        "rebound via the Ref object as binding key": ("c2 = {'deep': {'er': copy.deepcopy(c0)}}; m2 = xdeps.Manager(); r2 = m2.ref(c2, 'tgt')",
                                                      "{r: r2['deep']['er']}", "c2['deep']['er']", "r2['deep']['er']"),
        "Ref object key, same label": ("c2 = copy.deepcopy(c0); m2 = xdeps.Manager(); r2 = m2.ref(c2, 'ref')", "{r: r2}", "c2", "r2"),
        "rebound to nested, receiver has its own top-level definitions": (
            "c2 = copy.deepcopy(c0); c2['deep'] = copy.deepcopy(c0); m2 = xdeps.Manager(); r2 = m2.ref(c2, 'ref'); r2['c'] = r2['a'] * 1; r2['out'] = r2['b'] * 1",
            "{'ref': r2['deep']}", "c2['deep']", "r2['deep']"),
        "rebound label containing label": ("c2 = {'ref_a': copy.deepcopy(c0)}; m2 = xdeps.Manager(); r2 = m2.ref(c2, 'ref_ref')", "{'ref': r2['ref_a']}",
                                           "c2['ref_a']", "r2['ref_a']"),
    }
    for name, (prep, bindsrc, tgtsrc, rootsrc) in scen.items():
        for overwrite in (True, False):
            c0, m0, r0 = env2["src"]()
            steps = [prep, f"root = {rootsrc}; tgt = {tgtsrc}"]
            if not overwrite:
                steps.append("root['c'] = root['a'] - root['b']")           # an existing definition that must be kept
            steps.append(f"m2.copy_expr_from(m, 'ref', bindings={bindsrc}, overwrite={overwrite})")
            body = "c0, m, r = src()\n" + "\n".join(steps) + "\n"
            loc = dict(c0=c0, m=m0, r=r0, copy=copy, xdeps=xdeps)
            rac.case((name, overwrite), sample=dict(scenario=name, overwrite=overwrite))
            try:
                for st_ in steps:
                    exec(st_, loc)
                m2, tgt, root = loc["m2"], loc["tgt"], loc["root"]
                # the copied definitions are exactly those obtained by defining the same expressions directly on the target
                loc3 = dict(c0=c0, m=m0, r=r0, copy=copy, xdeps=xdeps)
                exec(prep, loc3)
                exec(f"root = {rootsrc}; tgt = {tgtsrc}", loc3)
                env2["define"](loc3["root"])
                if not overwrite:
                    loc3["root"]["c"] = loc3["root"]["a"] - loc3["root"]["b"]
                scr = PRELUDE + CP + body + "c0b, mb, rb = src()\nc0 = c0b\n" + prep.replace("m2", "m3").replace("r2", "r3").replace("c2", "c3") + \
                    f"\nroot3 = {rootsrc.replace('r2', 'r3')}\ndefine(root3)\n" + ("root3['c'] = root3['a'] - root3['b']\n" if not overwrite else "") + \
                    "print(sorted(m2.dump())); print(sorted(m3.dump()))\nassert sorted(m2.dump()) == sorted(m3.dump())\n"
                if sorted(m2.dump()) != sorted(loc3["m2"].dump()):
                    rac.fail(f"copy-defs {name} {overwrite}", f"C11 copy_expr_from ({name}, overwrite={overwrite}): copied definitions {sorted(m2.dump())} != "
                             f"the source's definitions on the target {sorted(loc3['m2'].dump())}", scr, "Manager.copy_expr_from")
                    continue
                if "nested" in name or "containing" in name or "binding key" in name:
                    continue        # value propagation among members of one nested container is subject to known finding K1 (C01)
                root["a"] = 11.0
                root["k"]["ref"] = -1.0
                root["sub"]["a"] = 0.5
                want = copy.deepcopy(c0)
                want["a"], want["k"]["ref"], want["sub"]["a"] = 11.0, -1.0, 0.5
                want = env2["expected"](want)
                if not overwrite:
                    want["c"] = want["a"] - want["b"]
                    want["d"] = want["c"] + want["ref_a"]
                if tgt != want:
                    rac.fail(f"copy {name} {overwrite}", f"C11 copy_expr_from ({name}, overwrite={overwrite}): copied manager computes {tgt}, the definitions give {want}",
                             PRELUDE + CP + body + "root['a'] = 11.0; root['k']['ref'] = -1.0; root['sub']['a'] = 0.5\nprint(tgt)\n", "Manager.copy_expr_from")
            except Exception as ex:     # noqa
                rac.fail(f"copy {name} {overwrite}", f"C11 copy_expr_from ({name}, overwrite={overwrite}) raised {type(ex).__name__}: {ex}",
                         PRELUDE + CP + body, "Manager.copy_expr_from")
    # a binding whose source is a nested reference (text substitution path)
    c0, m0, r0 = env2["src"]()
    rac.case("nested-source binding", sample="bindings={ref['sub']: new['other']}")
    try:
        c2 = {"a": 3.0, "b": 4.0, "ref_a": 5.0, "k": {"ref": 1.0, "x": 2.0}, "other": {"a": 1.0, "c": 0.0}, "sub": {"a": 100.0, "c": 0.0}, "out": 0.0}
        m2 = xdeps.Manager()
        r2 = m2.ref(c2, "ref")
        m2.copy_expr_from(m0, "ref", bindings={r0["sub"]: r2["other"]})
        r2["other"]["a"] = 0.5
        want_out = 2 * (0.5 * 10) + 0.5 + 3.0
        if abs(c2["out"] - want_out) > 1e-12 or c2["other"]["c"] != 5.0:
            rac.fail("copy nested-source", f"C11 copy_expr_from with bindings={{ref['sub']: new['other']}}: out = {c2['out']} (definitions give {want_out}), other = {c2['other']}",
                     PRELUDE + CP + "c0, m, r = src()\nc2 = {'a': 3.0, 'b': 4.0, 'ref_a': 5.0, 'k': {'ref': 1.0, 'x': 2.0}, 'other': {'a': 1.0, 'c': 0.0}, 'sub': {'a': 100.0, 'c': 0.0}, 'out': 0.0}\n"
                     "m2 = xdeps.Manager(); r2 = m2.ref(c2, 'ref'); m2.copy_expr_from(m, 'ref', bindings={r['sub']: r2['other']})\nr2['other']['a'] = 0.5\nassert abs(c2['out'] - 13.5) < 1e-12 and c2['other']['c'] == 5.0, c2\n",
                     "Manager.copy_expr_from")
    except Exception as ex:     # noqa
        rac.fail("copy nested-source", f"C11 copy_expr_from with a nested source binding raised {type(ex).__name__}: {ex}", PRELUDE + CP, "Manager.copy_expr_from")
    rac.section("repeated+partial", "a second copy / load on the SAME receiving manager after a copy with rebound labels (the receiving manager's own "
                "label table must be untouched by the first); load(overwrite=False) where the manager already holds a definition of an ELEMENT of "
                "a container the dump defines as a whole, or uses the dump's target as a dependency only: exactly the missing definitions arrive",
                "5 crafted sequences")
    RP = {
        "rebound copy then plain copy": (
            "cs = {'a': 2.0, 'b': 0.0}; ms = xdeps.Manager(); rs = ms.ref(cs, 'ref'); rs['b'] = rs['a'] * 3\n"
            "c2 = {'a': 5.0, 'b': 0.0, 'w': {'a': 7.0, 'b': 0.0}}; m2 = xdeps.Manager(); r2 = m2.ref(c2, 'ref')\n"
            "m2.copy_expr_from(ms, 'ref', bindings={'ref': r2['w']})\nm2.copy_expr_from(ms, 'ref')\nr2['a'] = 5.0; r2['w']['a'] = 7.0\n",
            "sorted(m2.dump()) == [(\"ref['b']\", \"(ref['a'] * 3)\"), (\"ref['w']['b']\", \"(ref['w']['a'] * 3)\")] and c2['b'] == 15.0 and c2['w']['b'] == 21.0"),
        "rebound copy then load": (
            "cs = {'a': 2.0, 'b': 0.0}; ms = xdeps.Manager(); rs = ms.ref(cs, 'ref'); rs['b'] = rs['a'] * 3\n"
            "c2 = {'a': 5.0, 'b': 0.0, 'w': {'a': 7.0, 'b': 0.0}}; m2 = xdeps.Manager(); r2 = m2.ref(c2, 'ref')\n"
            "m2.copy_expr_from(ms, 'ref', bindings={'ref': r2['w']})\nm2.load(ms.dump())\nr2['a'] = 5.0; r2['w']['a'] = 7.0\n",
            "sorted(m2.dump()) == [(\"ref['b']\", \"(ref['a'] * 3)\"), (\"ref['w']['b']\", \"(ref['w']['a'] * 3)\")] and c2['b'] == 15.0 and c2['w']['b'] == 21.0"),
        "two rebound copies": (
            "cs = {'a': 2.0, 'b': 0.0}; ms = xdeps.Manager(); rs = ms.ref(cs, 'ref'); rs['b'] = rs['a'] * 3\n"
            "c2 = {'u': {'a': 1.0, 'b': 0.0}, 'w': {'a': 7.0, 'b': 0.0}}; m2 = xdeps.Manager(); r2 = m2.ref(c2, 'ref')\n"
            "m2.copy_expr_from(ms, 'ref', bindings={'ref': r2['w']})\nm2.copy_expr_from(ms, 'ref', bindings={'ref': r2['u']})\nr2['u']['a'] = 1.0; r2['w']['a'] = 7.0\n",
            "sorted(m2.dump()) == [(\"ref['u']['b']\", \"(ref['u']['a'] * 3)\"), (\"ref['w']['b']\", \"(ref['w']['a'] * 3)\")] and c2['u']['b'] == 3.0 and c2['w']['b'] == 21.0"),
        "load(overwrite=False): whole container in the dump, one element already defined": (
            "import numpy as np\ncs = {'x': 2.0, 'vec': np.zeros(2), 's': 0.0}; ms = xdeps.Manager(); rs = ms.ref(cs, 'ref'); fs = ms.ref(np, 'np')\n"
            "rs['vec'] = fs.ones(2) * rs['x']; rs['s'] = rs['vec'][1] + 1\n"
            "c2 = {'x': 4.0, 'vec': np.zeros(2), 's': 0.0, 'y': 0.5}; m2 = xdeps.Manager(); r2 = m2.ref(c2, 'ref'); f2 = m2.ref(np, 'np')\n"
            "r2['vec'][0] = r2['y']\nown = str(m2.tasks[r2['vec'][0]].expr)\nm2.load(ms.dump(), overwrite=False)\nr2['x'] = 10.0\n",
            "dict(m2.dump()).get(\"ref['vec']\") == dict(ms.dump())[\"ref['vec']\"] and dict(m2.dump()).get(\"ref['s']\") == dict(ms.dump())[\"ref['s']\"] "
            "and str(m2.tasks[r2['vec'][0]].expr) == own and len(m2.dump()) == 3 and c2['vec'][1] == 10.0 and c2['s'] == 11.0"),
        "load(overwrite=False): target used as a dependency only, consumer listed first": (
            "cs = {'a': 1.0, 'b': 0.0, 'c': 0.0}; ms = xdeps.Manager(); rs = ms.ref(cs, 'ref'); rs['c'] = rs['b'] + 1; rs['b'] = rs['a'] * 2\n"
            "c2 = {'a': 3.0, 'b': 0.0, 'c': 0.0, 'z': 0.0}; m2 = xdeps.Manager(); r2 = m2.ref(c2, 'ref'); r2['z'] = r2['b'] * 10\n"
            "m2.load(ms.dump(), overwrite=False)\nr2['a'] = 5.0\n",
            "(c2['b'], c2['c'], c2['z']) == (10.0, 11.0, 100.0) and len(m2.dump()) == 3"),
    }
    for name, (src, cond) in RP.items():
        scr = PRELUDE + "import xdeps\n" + src + "print(sorted(m2.dump()), c2)\nassert " + cond + "\n"
        rac.case(("repeated+partial", name), sample=name)
        envr = {"xdeps": xdeps}
        try:
            exec(src, envr)
            ok = eval(cond, envr)
            got = (sorted(envr["m2"].dump()), envr["c2"])
        except Exception as ex:     # noqa
            ok, got = False, f"raised {type(ex).__name__}: {ex}"
        if not ok:
            rac.fail("repeated+partial " + name, f"C11 {name}: the receiving manager ends with {got}", scr, "Manager.copy_expr_from" if "copy" in name else "Manager.load")
    rac.section("colliding+foreign", "(a) item references with the SAME key under two different owners whose (32-bit) hashes collide -- a pair is searched among "
                "<= 400 000 owners e['bend<i>'] on every run -- printed one after the other: each prints, and rebuilds, its own path, and a dump with definitions "
                "on both keeps both; (b) copy_expr_from of one container while the source manager ALSO controls a numpy-array container that is the target "
                "of a definition (a foreign top-level container whose == is element-wise)", "1 colliding pair x 2 orders; 3 foreign containers")
    COL = '''
import xdeps
def colliding_pair(limit=400000):
    m = xdeps.Manager(); e = m.ref({}, "e")
    seen = {}
    for i in range(limit):
        o = e["bend%d" % i]
        h = hash(o)
        if h in seen:
            return seen[h], i
        seen[h] = i
    return None
'''
    cenv = {}
    exec(COL, cenv)
    pair = cenv["colliding_pair"]()
    if pair is not None:
        for order in (pair, pair[::-1]):
            i, j = order
            body = (f"i, j = {i}, {j}\nd = {{'bend%d' % i: {{'k1': 1.0}}, 'bend%d' % j: {{'k1': 2.0}}, 'a': 3.0}}\nm = xdeps.Manager(); e = m.ref(d, 'e')\n"
                    "ri, rj = e['bend%d' % i]['k1'], e['bend%d' % j]['k1']\nassert hash(e['bend%d' % i]) == hash(e['bend%d' % j])\n"
                    "ti, tj = repr(ri), repr(rj)\nprint(ti, tj)\nassert ti == \"e['bend%d']['k1']\" % i and tj == \"e['bend%d']['k1']\" % j\nassert ri != rj\n"
                    "ri._owner._owner[ri._owner._key][ri._key] = e['a'] * 2\ne['bend%d' % j]['k1'] = e['a'] + 1\nassert len(m.dump()) == 2, m.dump()\n"
                    "d2 = {'bend%d' % i: {'k1': 0.0}, 'bend%d' % j: {'k1': 0.0}, 'a': 3.0}\nm2 = xdeps.Manager(); e2 = m2.ref(d2, 'e'); m2.load(m.dump()); e2['a'] = 3.0\n"
                    "assert d2 == d, (d2, d)\n")
            rac.case(("colliding", order), sample=dict(owners=[f"e['bend{i}']", f"e['bend{j}']"]))
            try:
                d = {f"bend{i}": {"k1": 1.0}, f"bend{j}": {"k1": 2.0}, "a": 3.0}
                m = xdeps.Manager()
                e = m.ref(d, "e")
                ri, rj = e[f"bend{i}"]["k1"], e[f"bend{j}"]["k1"]
                ti, tj = repr(ri), repr(rj)
                ok = ti == f"e['bend{i}']['k1']" and tj == f"e['bend{j}']['k1']" and ri != rj
                if ok:
                    e[f"bend{i}"]["k1"] = e["a"] * 2
                    e[f"bend{j}"]["k1"] = e["a"] + 1
                    dump = m.dump()
                    d2 = {f"bend{i}": {"k1": 0.0}, f"bend{j}": {"k1": 0.0}, "a": 3.0}
                    m2 = xdeps.Manager()
                    e2 = m2.ref(d2, "e")
                    m2.load(dump)
                    e2["a"] = 3.0           # (load only registers: an assignment runs the definitions)
                    ok = len(dump) == 2 and d2 == d
                if not ok:
                    rac.fail(f"colliding {order}", f"C11 owners e['bend{i}'] and e['bend{j}'] have equal hashes: their items print as {ti!r} and {tj!r} "
                             f"(equal: {ri == rj}); a manager with a definition on each dumps {len(m.dump())} definition(s)", PRELUDE + COL + body, "ItemRef.__repr__")
            except Exception as ex:     # noqa
                rac.fail(f"colliding {order}", f"C11 colliding owners: {type(ex).__name__}: {ex}", PRELUDE + COL + body, "ItemRef.__repr__")
    FOR = '''
import xdeps, numpy as np
def mkf(kind):
    arr = {"array": np.array([1.0, 2.0, 3.0]), "matrix": np.zeros((2, 2)), "list": [1.0, 2.0, 3.0]}[kind]
    c = {"a": 1.5, "b": 0.0, "t": 0.0}
    m = xdeps.Manager(); r = m.ref(c, "c"); ra = m.ref(arr, "arr")
    r["b"] = r["a"] * 2
    if kind == "matrix":
        ra[0, 1] = r["a"] + 1
    else:
        ra[1] = r["a"] + 1          # a definition whose target lives in the OTHER top-level container
    r["t"] = r["b"] + 1
    return c, arr, m
'''
    fenv = {}
    exec(FOR, fenv)
    for kind in ("array", "matrix", "list"):
        body = (f"c, arr, m = mkf({kind!r})\nc2 = {{'a': 4.0, 'b': 0.0, 't': 0.0}}\nm2 = xdeps.Manager(); r2 = m2.ref(c2, 'c')\nm2.copy_expr_from(m, 'c')\n"
                "print(sorted(m2.dump()))\nr2['a'] = 5.0\nassert c2 == {'a': 5.0, 'b': 10.0, 't': 11.0}, c2\n")
        rac.case(("foreign", kind), sample=dict(foreign_container=kind))
        try:
            c, arr, m = fenv["mkf"](kind)
            c2 = {"a": 4.0, "b": 0.0, "t": 0.0}
            m2 = xdeps.Manager()
            r2 = m2.ref(c2, "c")
            m2.copy_expr_from(m, "c")
            r2["a"] = 5.0
            if c2 != {"a": 5.0, "b": 10.0, "t": 11.0} or len(m2.dump()) != 2:
                rac.fail(f"foreign {kind}", f"C11 copy_expr_from(m, 'c') next to a {kind} container with a definition: the copy holds {sorted(m2.dump())} and a := 5.0 "
                         f"leaves {c2}", PRELUDE + FOR + body, "Manager.copy_expr_from")
        except Exception as ex:     # noqa
            rac.fail(f"foreign {kind}", f"C11 copy_expr_from(m, 'c') next to a {kind} container with a definition raised {type(ex).__name__}: {ex}",
                     PRELUDE + FOR + body, "Manager.copy_expr_from")
    return rac.finish()


if __name__ == "__main__":
    sys.exit(main())
