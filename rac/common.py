"""Shared plumbing of the run-time contract checks (bounded stand-in / replay engine)."""
import argparse
import hashlib
import json
import os
import random
import sys
import time


class CallDeadline(Exception):
    """a single library call did not return within the (very generous) deadline"""


class deadline:
    """with deadline(60): opt.solve()   -- a call that normally takes milliseconds and has not returned after `seconds` of wall time is
    interrupted (SIGALRM) and reported by the caller as a failed clause ("returns / succeeds"), instead of hanging the whole harness until
    the driver's timeout turns everything it found into "checker broken"."""

    def __init__(self, seconds=60):
        self.seconds = seconds

    def __enter__(self):
        import signal

        def onalarm(signum, frame):
            raise CallDeadline(f"the call did not return within {self.seconds} s")
        self._old = signal.signal(signal.SIGALRM, onalarm)
        signal.setitimer(signal.ITIMER_REAL, self.seconds)
        return self

    def __exit__(self, *exc):
        import signal
        signal.setitimer(signal.ITIMER_REAL, 0)
        signal.signal(signal.SIGALRM, self._old)
        return False


DEADLINE_SRC = """
import signal as _signal
def _onalarm(signum, frame):
    raise RuntimeError('the call did not return within 60 s')
_signal.signal(_signal.SIGALRM, _onalarm); _signal.setitimer(_signal.ITIMER_REAL, 60)
"""


def assert_scratch_build():
    """the code under test must be the scratch build of the working tree, compiled"""
    import xdeps
    import xdeps.refs as refs
    want = os.environ.get("XDEPS_BUILD_DIR")
    here = os.path.realpath(os.path.dirname(xdeps.__file__))
    if want and not here.startswith(os.path.realpath(want)):
        raise SystemExit(f"RAC: xdeps imported from {here}, expected under {want}")
    if not refs.is_cythonized():
        raise SystemExit("RAC: xdeps.refs is not the compiled extension")
    return here


class Rac:
    def __init__(self, prop, argv=None):
        ap = argparse.ArgumentParser()
        ap.add_argument("--tier", default="quick")
        ap.add_argument("--seed", type=int, default=0)
        ap.add_argument("--out", required=True)
        ap.add_argument("--budget", type=float, default=None, help="soft time budget in seconds")
        self.args = ap.parse_args(argv)
        self.prop = prop
        self.tier = self.args.tier
        self.rng = random.Random(self.args.seed)
        self.t0 = time.time()
        self.evaluations = 0
        self.seen = set()
        self.nontrivial = 0
        self.samples = []
        self.failures = []
        self.failkeys = set()
        self.rules = []
        self.bounds = []
        self.exhaustive = True
        self.sections = {}
        self.cur = None
        self.where = assert_scratch_build()

    def section(self, name, rule, bound, exhaustive=True):
        self.cur = name
        # (opened with time to spare: if it ends with no evaluation at all, the harness skipped it -- vacuity guard)
        early = self.args.budget is None or time.time() - self.t0 < 0.5 * self.args.budget
        self.sections[name] = dict(evaluations=0, distinct_nontrivial=0, rule=rule, bound=bound,
                                   exhaustive=exhaustive, failures=0, opened_with_time_to_spare=early)
        self.rules.append(f"[{name}] {rule}")
        self.bounds.append(f"[{name}] {bound}")
        if not exhaustive:
            self.exhaustive = False

    def case(self, canon, nontrivial=True, sample=None):
        """count one evaluated case; `canon` is a hashable/str canonical form used for distinctness"""
        self.evaluations += 1
        sec = self.sections[self.cur]
        sec["evaluations"] += 1
        h = hashlib.blake2b(repr((self.cur, canon)).encode(), digest_size=10).digest()
        if h not in self.seen:
            self.seen.add(h)
            if nontrivial:
                self.nontrivial += 1
                sec["distinct_nontrivial"] += 1
                if sample is not None and len([s for s in self.samples if s.get("section") == self.cur]) < 3:
                    self.samples.append(dict(section=self.cur, case=sample))

    def fail(self, key, what, script, function=None):
        """a contract violation observed on the real code.  `key` identifies the failing
        input / call site (matched against known_findings.json)."""
        self.sections[self.cur]["failures"] += 1
        if key in self.failkeys:
            return
        self.failkeys.add(key)
        # failures carrying the signature of a recorded known finding ("K<n>:") must never crowd out other failures: separate caps
        import re as _re
        known_like = bool(_re.match(r"K\d+:", key))
        kept = [f for f in self.failures if bool(_re.match(r"K\d+:", f["key"])) == known_like]
        if len(kept) < (5 if known_like else 25):
            self.failures.append(dict(key=key, what=what, script=script, function=function, section=self.cur))
            # failing inputs found so far survive a harness that is later killed (a change that makes a later call hang would otherwise turn
            # everything found into "checker broken"): the driver reads this file when the harness does not finish
            try:
                self._dump(self.args.out + ".partial", partial=True)
            except Exception:      # noqa
                pass

    def out_of_time(self, frac=1.0):
        return self.args.budget is not None and time.time() - self.t0 > self.args.budget * frac

    def _dump(self, path, partial=False):
        res = dict(property=self.prop, tier=self.tier, seed=self.args.seed, evaluations=self.evaluations,
                   distinct_nontrivial=self.nontrivial, rule=" ; ".join(self.rules), bounds=self.bounds,
                   samples=self.samples, exhaustive=self.exhaustive and not partial, failures=self.failures,
                   n_failing_keys=len(self.failkeys), sections=self.sections,
                   empty_sections=[] if partial else [n for n, sec in self.sections.items()
                                                      if sec["evaluations"] == 0 and sec["failures"] == 0 and sec["opened_with_time_to_spare"]],
                   imported_from=self.where, wall_s=round(time.time() - self.t0, 2), **({"partial": True} if partial else {}))
        with open(path, "w") as fh:
            json.dump(res, fh, indent=1, default=str)

    def finish(self):
        self._dump(self.args.out)
        try:
            os.unlink(self.args.out + ".partial")
        except OSError:
            pass
        return 0


PRELUDE = '''# replay script generated by /verif (run with the repository importable: PYTHONPATH=/repo or a build of it)
import sys
'''
