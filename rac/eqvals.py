"""Run-time contract section shared by C01 and C17: plain values that COMPARE EQUAL to what a location already holds, and the very same
object assigned again after it was edited in place (wave 9: C01-17, C17-17 -- a "nothing changed" shortcut in set_value keyed on == / is).

Statement (C01): every location without a definition holds the last value assigned to it, every expression-defined location the value of
its expression on the current contents; (C17) while frozen, assigning plain values to locations without an expression still updates all
their dependants.  "Holds the last value assigned" is read exactly: same type, same printed form, and for a mutable value the very object.
Each case is a standalone script (it is the replay file as it stands)."""
from rac.common import PRELUDE

SETUP = '''import math, xdeps
import numpy as np
class H:
    @staticmethod
    def tot(c): return float(sum(c))
    @staticmethod
    def sgn(x): return math.copysign(1.0, float(np.asarray(x).ravel()[0]))
d = {'n': 0, 'm': None, 's': None, 'l': [1.0, 2.0, 3.0], 'a': np.array([1.0, 2.0]), 't': None, 'u': None}
m = xdeps.Manager(); r = m.ref(d, 'd'); f = m.ref(H, 'f')
'''
DEFS = '''r['m'] = r['n'] + 1
r['s'] = f.sgn(r['n'] * 1.0)
r['t'] = f.tot(r['l'])
r['u'] = f.tot(r['a'])
'''
# (first value, second value) -- equal under ==, different values
PAIRS = [("2**53", "float(2**53)"), ("float(2**53)", "2**53"), ("0.0", "-0.0"), ("-0.0", "0.0"), ("1", "True"), ("True", "1"), ("1", "1.0"), ("3.0", "3"),
         ("np.float64(2.0)", "2.0"), ("2.0", "np.float64(2.0)"), ("np.float32(0.5)", "0.5"), ("0", "False"), ("7", "np.int64(7)"), ("np.array([3.0])", "3.0")]
CHECK_PAIR = '''got = d['n']
assert type(got) is type(v2) and repr(got) == repr(v2), ("d['n'] does not hold the last value assigned", got, v2)
assert type(d['m']) is type(v2 + 1) and repr(d['m']) == repr(v2 + 1), ("m = n + 1 does not follow the last value assigned to n", d['m'], v2 + 1)
assert repr(d['s']) == repr(H.sgn(v2 * 1.0)), ("s = sgn(n * 1.0) does not follow the last value assigned to n", d['s'], H.sgn(v2 * 1.0))
'''
# the same OBJECT assigned again after an in-place edit made outside the manager (the assignment tells the manager), and an equal but distinct object
OBJECTS = {
    "list edited in place, same object assigned again": ("v = d['l']\nv[0] = 9.0\nr['l'] = v\n", "assert d['l'] is v and d['t'] == 14.0, (d['l'], d['t'])\n"),
    "array edited in place, same object assigned again": ("v = d['a']\nv += 1.5\nr['a'] = v\n", "assert d['a'] is v and d['u'] == 6.0, (d['a'], d['u'])\n"),
    "equal but distinct list": ("v = [1.0, 2.0, 3.0]\nr['l'] = v\nv[2] = 10.0\nr['l'] = v\n", "assert d['l'] is v and d['t'] == 13.0, (d['l'], d['t'])\n"),
    "equal but distinct list, then edited through the manager": ("v = [1.0, 2.0, 3.0]\nr['l'] = v\nr['l'][1] = 5.0\n", "assert d['l'] is v and v == [1.0, 5.0, 3.0] and d['t'] == 9.0, (d['l'], v, d['t'])\n"),
    "element assigned the value it holds after an in-place edit of a sibling": ("d['l'][0] = 4.0\nr['l'][1] = 2.0\n", "assert d['t'] == 9.0, d['t']\n"),
}


def run(rac, prop, frozen=False):
    fz = "m.freeze_tree()\n" if frozen else ""
    rac.section("equal-valued-assignments" + ("-frozen" if frozen else ""),
                ("while the tree is FROZEN: " if frozen else "") + "a location without a definition assigned a value that compares equal to the one it holds but is "
                "a different value (2**53 / float, 0.0 / -0.0, 1 / True / 1.0, numpy scalars / Python numbers, a size-1 array / a number), with two dependants "
                "sensitive to the difference; the very same list / array assigned again after an in-place edit, and an equal but distinct list: the location "
                "holds exactly the last value assigned (type, printed form, identity of a mutable value) and every dependant follows it",
                f"{len(PAIRS)} value pairs x (first value assigned through the manager / present from the start) + {len(OBJECTS)} object scenarios")
    for v1, v2 in PAIRS:
        for how in ("assigned", "initial"):
            first = f"r['n'] = {v1}\n" if how == "assigned" else ""
            init = SETUP.replace("'n': 0,", f"'n': {v1},") if how == "initial" else SETUP
            src = init + DEFS + first + fz + f"v2 = {v2}\nr['n'] = v2\n" + CHECK_PAIR
            key = f"equal-valued {v1} -> {v2} ({how}{', frozen' if frozen else ''})"
            rac.case(key, sample=dict(first=v1, then=v2, first_value=how, frozen=frozen))
            try:
                exec(src, {})
            except AssertionError as ex:
                rac.fail(key, f"{prop} n = {v1} ({how}), then n = {v2}{' while frozen' if frozen else ''}: {ex}", PRELUDE + src, "Manager.set_value")
            except Exception as ex:      # noqa
                rac.fail(key, f"{prop} {key}: raised {type(ex).__name__}: {ex}", PRELUDE + src, "Manager.set_value")
    for name, (body, check) in OBJECTS.items():
        src = SETUP + DEFS + fz + body + check
        key = f"same-object {name}{' (frozen)' if frozen else ''}"
        rac.case(key, sample=dict(scenario=name, frozen=frozen))
        try:
            exec(src, {})
        except AssertionError as ex:
            rac.fail(key, f"{prop} {name}{' while frozen' if frozen else ''}: stale {ex}", PRELUDE + src, "Manager.set_value")
        except Exception as ex:      # noqa
            rac.fail(key, f"{prop} {key}: raised {type(ex).__name__}: {ex}", PRELUDE + src, "Manager.set_value")
