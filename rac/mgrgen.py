"""Generator of manager histories + independent (pull-model) oracle.

A *world* is a set of nested containers (dict in dict, list in dict, attribute object)
controlled by one xdeps Manager.  A *history* is a list of operations applied through
refs.  The oracle never looks at the manager: it keeps its own table of definitions and
last-assigned values and re-evaluates every definition from scratch (pull model).

Locations are paths: ('a',), ('n','x'), ('l',0), ('o','.p')  ('.p' = attribute p).
Expressions are templates over source locations, given as Python callables that work
both on refs (building the deferred expression) and on plain numbers (oracle).
"""
import copy
import itertools
import operator


class Obj:
    def __init__(self, **kw):
        self.__dict__.update(kw)

    def __repr__(self):
        return "Obj(%s)" % ", ".join(f"{k}={v!r}" for k, v in sorted(self.__dict__.items()))

    def __eq__(self, other):
        return isinstance(other, Obj) and self.__dict__ == other.__dict__


LOCS = [("a",), ("b",), ("c",), ("n", "x"), ("n", "y"), ("n", "z"), ("l", 0), ("l", 1), ("o", ".p"), ("o", ".q")]


def initial_data():
    return {"a": 1.0, "b": 2.0, "c": 3.0,
            "n": {"x": 1.5, "y": 2.5, "z": 4.0},
            "l": [1.0, 2.0, 3.0],
            "o": Obj(p=1.25, q=2.25)}


# expression templates: (name, arity, function)
TEMPLATES = {
    "dbl": (1, lambda s: 2 * s),
    "inc": (1, lambda s: s + 1),
    "neg": (1, lambda s: -s),
    "sum": (2, lambda s, t: s + t),
    "mix": (2, lambda s, t: s * t - 1),
    "rsub": (1, lambda s: 10 - s),
    "div": (2, lambda s, t: s / (t + 100)),
    "same": (1, lambda s: s),          # an alias: the target receives the very same object as the source
    # a builtin node (abs / round) as the FIRST operand visited of an enclosing binary operation, and nested under another builtin with a
    # parameter: the accumulator of the dependency walk is still empty when the builtin node is reached (wave 9, C02-17)
    "absp": (2, lambda s, t: abs(s) + t),
    "rnd": (1, lambda s: round(abs(s), 1) * 2),
}


class Helpers:
    """functions reached through a reference (f = m.ref(Helpers, 'f')): f.tot(d['n']) reads a container AS A WHOLE"""

    @staticmethod
    def tot(c):
        return float(sum(c.values())) if isinstance(c, dict) else float(sum(c))


# container-level sources (opt-in: op_alphabet(containers=True) / random_history(containers=True))
CLOCS = [("n",), ("l",)]
CTEMPLATES = {"tot": (1, Helpers.tot)}


def is_container(loc):
    return loc in CLOCS


def members(base, loc):
    c = get_raw(base, loc)
    return [loc + (k,) for k in (c.keys() if isinstance(c, dict) else range(len(c)))]

INPLACE = {"+=": operator.iadd, "*=": operator.imul, "-=": operator.isub}


def get_raw(data, loc):
    cur = data
    for step in loc:
        if isinstance(step, str) and step.startswith("."):
            cur = getattr(cur, step[1:])
        else:
            cur = cur[step]
    return cur


def set_raw(data, loc, val):
    cur = data
    for step in loc[:-1]:
        cur = getattr(cur, step[1:]) if isinstance(step, str) and step.startswith(".") else cur[step]
    step = loc[-1]
    if isinstance(step, str) and step.startswith("."):
        setattr(cur, step[1:], val)
    else:
        cur[step] = val


def locstr(loc):
    s = "d"
    for step in loc:
        s += step if isinstance(step, str) and step.startswith(".") else f"[{step!r}]"
    return s


TEXT = {"dbl": "2 * {0}", "inc": "{0} + 1", "neg": "-{0}", "sum": "{0} + {1}", "mix": "{0} * {1} - 1", "rsub": "10 - {0}",
        "div": "{0} / ({1} + 100)", "same": "{0}", "absp": "abs({0}) + {1}", "rnd": "round(abs({0}), 1) * 2"}


def labelstr(loc):
    return locstr(loc)          # the container label is 'd': d['n']['x'], d['o'].p


def load_pairs(entries):
    """[(loc, template, sources)] -> the (target text, expression text) pairs Manager.load() takes"""
    return [(labelstr(loc), TEXT[tn].format(*[labelstr(s_) for s_ in srcs])) for loc, tn, srcs in entries]


def opstr(op):
    k = op[0]
    if k == "load":
        return f"load({load_pairs(op[1])!r}, overwrite={op[2]})"
    if k == "val":
        return f"{locstr(op[1])} = {op[2]!r}"
    if k == "expr" and op[2] in CTEMPLATES:
        return f"{locstr(op[1])} = f.{op[2]}({', '.join(locstr(s) for s in op[3])})"
    if k == "expr":
        return f"{locstr(op[1])} = {op[2]}({', '.join(locstr(s) for s in op[3])})"
    if k == "unreg":
        return f"unregister({locstr(op[1])})"
    if k == "iop":
        return f"{locstr(op[1])} {op[2]} {op[3]!r}"
    return repr(op)


class Oracle:
    """pull-model reference: definitions + last assigned values, nothing else"""

    def __init__(self):
        self.base = initial_data()        # last value assigned to each location
        self.defs = {}                    # loc -> (template, sources) | ('chain', inner_def, opname, operand)

    def sources(self, d):
        """leaf locations a definition reads (a container read as a whole reads every member)"""
        if d[0] == "chain":
            return self.sources(d[1])
        out = []
        for s in d[1]:
            out += members(self.base, s) if is_container(s) else [s]
        return out

    def feeds(self, loc, target):
        """does `target`'s value (transitively) depend on `loc` by data flow?"""
        seen, todo = set(), [target]
        while todo:
            p = todo.pop()
            if p in seen:
                continue
            seen.add(p)
            if p in self.defs:
                todo += self.sources(self.defs[p])
        return loc in seen and loc != target or (loc == target and False)

    def would_cycle(self, loc, srcs):
        # defining loc from srcs creates a cycle iff some source depends on loc (or is loc)
        srcs = [m for s in srcs for m in (members(self.base, s) if is_container(s) else [s])]
        for s in srcs:
            if s == loc:
                return True
            seen, todo = set(), [s]
            while todo:
                p = todo.pop()
                if p == loc:
                    return True
                if p in seen:
                    continue
                seen.add(p)
                if p in self.defs:
                    todo += self.sources(self.defs[p])
        return False

    def eval_def(self, d, memo):
        if d[0] == "chain":
            inner = self.eval_def(d[1], memo)
            return {"+=": operator.add, "*=": operator.mul, "-=": operator.sub}[d[2]](inner, d[3])
        f = (CTEMPLATES.get(d[0]) or TEMPLATES[d[0]])[1]
        return f(*[self.value(s, memo) for s in d[1]])

    def value(self, loc, memo=None):
        memo = {} if memo is None else memo
        if loc not in memo:
            if is_container(loc):
                # a container's value is assembled from its members' expected values
                c = get_raw(self.base, loc)
                memo[loc] = ({k: self.value(loc + (k,), memo) for k in c} if isinstance(c, dict)
                             else [self.value(loc + (i,), memo) for i in range(len(c))])
            elif loc in self.defs:
                memo[loc] = self.eval_def(self.defs[loc], memo)
            else:
                memo[loc] = get_raw(self.base, loc)
        return memo[loc]

    def apply(self, op):
        k = op[0]
        if k == "val":
            self.defs.pop(op[1], None)
            set_raw(self.base, op[1], copy.deepcopy(op[2]))
        elif k == "expr":
            self.defs[op[1]] = (op[2], tuple(op[3]))
        elif k == "unreg":
            if op[1] in self.defs:
                # the location keeps the value it had; the definition is gone
                set_raw(self.base, op[1], self.value(op[1]))
                del self.defs[op[1]]
        elif k == "load":
            # entries are taken in order; with overwrite=False an entry whose target has a definition (also one added by an earlier
            # entry of the same dump) is skipped, with overwrite=True it replaces it.  (load registers, it does not run the tasks.)
            for loc, tn, srcs in op[1]:
                if loc in self.defs and not op[2]:
                    continue
                self.defs[loc] = (tn, tuple(srcs))
        elif k == "iop":
            loc = op[1]
            if loc in self.defs:
                self.defs[loc] = ("chain", self.defs[loc], op[2], op[3])
            else:
                cur = get_raw(self.base, loc)
                set_raw(self.base, loc, {"+=": operator.add, "*=": operator.mul, "-=": operator.sub}[op[2]](cur, op[3]))

    def expected(self):
        memo = {}
        return {loc: self.value(loc, memo) for loc in LOCS}

    def sibling_feed(self):
        """signature of known finding K1: two expression-defined members of one *nested*
        container, one (transitively) feeding the other"""
        for p in self.defs:
            for q in self.defs:
                if p != q and len(p) > 1 and len(q) > 1 and p[0] == q[0]:
                    # does q depend on p ?
                    seen, todo = set(), list(self.sources(self.defs[q]))
                    while todo:
                        s = todo.pop()
                        if s == p:
                            return True
                        if s in seen:
                            continue
                        seen.add(s)
                        if s in self.defs:
                            todo += self.sources(self.defs[s])
        return False


def declared_cycle(m):
    """signature of known finding K1, read off the tasks' own (public) dependency / target sets: the DECLARED ordering
    graph (W -> R when W writes one of R's declared dependencies, W != R) contains a cycle.  With acyclic data flow this
    happens when tasks on members of one nested container feed each other through other locations: each lists the
    container among its targets and its dependencies."""
    tasks = dict(m.tasks)
    edges = {w: [r for r, rt in tasks.items() if r != w and set(wt.targets) & set(rt.dependencies)] for w, wt in tasks.items()}
    # iterative three-colour DFS (the harness must not touch the interpreter's recursion limit: the library's behaviour on deep
    # graphs is part of what is checked)
    color = {}
    for root in tasks:
        if root in color:
            continue
        color[root] = 1
        stack = [(root, iter(edges[root]))]
        while stack:
            v, it = stack[-1]
            u = next(it, None)
            if u is None:
                color[v] = 2
                stack.pop()
            elif color.get(u) == 1:
                return True
            elif u not in color:
                color[u] = 1
                stack.append((u, iter(edges[u])))
    return False


class World:
    """the real thing: containers + Manager + refs"""

    def __init__(self):
        import xdeps
        self.xdeps = xdeps
        self.data = initial_data()
        self.m = xdeps.Manager()
        self.r = self.m.ref(self.data, "d")
        self._f = None

    @property
    def f(self):
        # created on first use only: worlds that never read a container as a whole have exactly one container
        if self._f is None:
            self._f = self.m.ref(Helpers, "f")
        return self._f

    def build(self, tn, srcs):
        """the deferred expression  template(sources)  over this world's refs"""
        if tn in CTEMPLATES:
            return getattr(self.f, tn)(*[self.ref(s) for s in srcs])
        return TEMPLATES[tn][1](*[self.ref(s) for s in srcs])

    def ref(self, loc):
        cur = self.r
        for step in loc:
            cur = getattr(cur, step[1:]) if isinstance(step, str) and step.startswith(".") else cur[step]
        return cur

    def parent_set(self, loc, value):
        cur = self.r
        for step in loc[:-1]:
            cur = getattr(cur, step[1:]) if isinstance(step, str) and step.startswith(".") else cur[step]
        step = loc[-1]
        if isinstance(step, str) and step.startswith("."):
            setattr(cur, step[1:], value)
        else:
            cur[step] = value

    k1_seen = False      # sticky: a declared ordering cycle (known finding K1) existed after some operation of this world's history

    def apply(self, op):
        try:
            self._apply(op)
        finally:
            if not self.k1_seen and declared_cycle(self.m):
                self.k1_seen = True

    def _apply(self, op):
        k = op[0]
        if k == "val":
            self.parent_set(op[1], copy.deepcopy(op[2]))
        elif k == "expr":
            self.parent_set(op[1], self.build(op[2], op[3]))
        elif k == "unreg":
            rf = self.ref(op[1])
            if rf in self.m.tasks:
                self.m.unregister(rf)
        elif k == "load":
            self.m.load(load_pairs(op[1]), overwrite=op[2])
        elif k == "iop":
            # Python's  parent[key] OP= v  protocol: get, in-place operator, set
            tmp = self.ref(op[1])
            tmp = INPLACE[op[2]](tmp, op[3])
            self.parent_set(op[1], tmp)

    def actual(self):
        return {loc: get_raw(self.data, loc) for loc in LOCS}


def history_script(ops, tail="", after_setup=""):
    """standalone reproduction of a history on the real library (after_setup: source run right after the manager is created)"""
    lines = ["import xdeps, operator",
             "class Obj:\n    def __init__(self, **kw): self.__dict__.update(kw)\n"
             "    def __eq__(self, o): return type(o).__name__ == 'Obj' and self.__dict__ == o.__dict__\n"
             "    def __repr__(self): return 'Obj(%r)' % (self.__dict__,)",
             "d = {'a': 1.0, 'b': 2.0, 'c': 3.0, 'n': {'x': 1.5, 'y': 2.5, 'z': 4.0}, 'l': [1.0, 2.0, 3.0], 'o': Obj(p=1.25, q=2.25)}",
             "m = xdeps.Manager(); r = m.ref(d, 'd')"]
    if any(op[0] == "expr" and op[2] in CTEMPLATES for op in ops):
        lines.append("class H:\n    @staticmethod\n    def tot(c): return float(sum(c.values())) if isinstance(c, dict) else float(sum(c))\n"
                     "f = m.ref(H, 'f')")
    src = {"tot": "f.tot({0})", "dbl": "2 * {0}", "inc": "{0} + 1", "neg": "-{0}", "sum": "{0} + {1}", "mix": "{0} * {1} - 1",
           "rsub": "10 - {0}", "div": "{0} / ({1} + 100)", "same": "{0}", "absp": "abs({0}) + {1}", "rnd": "round(abs({0}), 1) * 2"}
    if after_setup:
        lines.append(after_setup)

    def rs(loc):
        s = "r"
        for step in loc:
            s += step if isinstance(step, str) and step.startswith(".") else f"[{step!r}]"
        return s
    for op in ops:
        k = op[0]
        if k == "val":
            lines.append(f"{rs(op[1])} = {op[2]!r}")
        elif k == "expr":
            lines.append(f"{rs(op[1])} = " + src[op[2]].format(*[rs(s) for s in op[3]]))
        elif k == "unreg":
            lines.append(f"if {rs(op[1])} in m.tasks: m.unregister({rs(op[1])})")
        elif k == "iop":
            lines.append(f"{rs(op[1])} {op[2]} {op[3]!r}")
        elif k == "load":
            lines.append(f"m.load({load_pairs(op[1])!r}, overwrite={op[2]})")
    return "\n".join(lines) + "\n" + tail


CONTAINER_OPS = [
    ("expr", ("c",), "tot", (("n",),)), ("expr", ("b",), "tot", (("l",),)), ("expr", ("o", ".q"), "tot", (("n",),)),
    ("expr", ("l", 1), "tot", (("n",),)),
    ("val", ("l", 2), 5.0), ("val", ("n", "z"), 5.0),                       # members nobody reads one by one
    ("val", ("l",), [4.0, 5.0, 6.0]), ("val", ("n",), {"x": 0.5, "y": 0.25, "z": 8.0}),   # a whole container replaced by value
]


def op_alphabet(small=True, containers=False):
    """the operation alphabet used for exhaustive enumeration (containers=True: also definitions that read a nested
    container as a whole, assignments to members nobody reads one by one, and whole containers replaced by value)"""
    if containers:
        return op_alphabet(small) + list(CONTAINER_OPS)
    ops = []
    vals = [5.0]
    locs = [("a",), ("b",), ("n", "x"), ("n", "y"), ("l", 0), ("o", ".p")] if small else LOCS
    for loc in locs:
        for v in vals:
            ops.append(("val", loc, v))
    pairs = [
        (("b",), "dbl", [("a",)]), (("c",), "sum", [("a",), ("b",)]), (("n", "x"), "dbl", [("a",)]),
        (("n", "y"), "inc", [("n", "x")]), (("n", "z"), "mix", [("n", "y"), ("b",)]), (("c",), "inc", [("n", "y")]),
        (("l", 0), "rsub", [("b",)]), (("l", 1), "sum", [("l", 0), ("a",)]), (("o", ".p"), "neg", [("c",)]),
        (("o", ".q"), "sum", [("o", ".p"), ("n", "x")]), (("a",), "inc", [("o", ".q")]), (("b",), "div", [("l", 1), ("a",)]),
        (("c",), "absp", [("a",), ("b",)]),
    ]
    for loc, tn, srcs in pairs:
        ops.append(("expr", loc, tn, tuple(srcs)))
    for loc in [("b",), ("n", "y"), ("c",)]:
        ops.append(("unreg", loc))
    for loc, o in [(("a",), "+="), (("b",), "*="), (("n", "y"), "-=")]:
        ops.append(("iop", loc, o, 3.0))
    return ops


def legal(oracle, op):
    """acyclic data flow only (the statement of C01 excludes cyclic definitions)"""
    if op[0] == "expr":
        return not oracle.would_cycle(op[1], op[3])
    if op[0] == "load":
        o2 = copy.deepcopy(oracle)
        for loc, tn, srcs in op[1]:
            if loc in o2.defs and not op[2]:
                continue
            if o2.would_cycle(loc, srcs):
                return False
            o2.defs[loc] = (tn, tuple(srcs))
        return True
    if op[0] == "val" and is_container(op[1]):
        # the statement of C01 excludes overwriting a container that holds an expression-defined member
        return not any(m in oracle.defs for m in members(oracle.base, op[1]))
    return True


def random_container(rng, loc):
    if loc == ("n",):
        return {k: round(rng.uniform(-9, 9), 3) for k in ("x", "y", "z")}
    return [round(rng.uniform(-9, 9), 3) for _ in range(3)]


def random_history(rng, length, alphabet=None, containers=False):
    alphabet = alphabet or op_alphabet(small=False, containers=containers)
    orc = Oracle()
    ops = []
    tries = 0
    while len(ops) < length and tries < length * 20:
        tries += 1
        op = rng.choice(alphabet)
        if op[0] == "val":
            op = ("val", op[1], random_container(rng, op[1]) if is_container(op[1]) else round(rng.uniform(-9, 9), 3))
        if op[0] == "expr" and op[2] in CTEMPLATES:
            if rng.random() < 0.5:
                op = ("expr", rng.choice(LOCS), op[2], (rng.choice(CLOCS),))
        elif op[0] == "expr" and rng.random() < 0.5:
            tn = rng.choice(sorted(TEMPLATES))
            ar = TEMPLATES[tn][0]
            op = ("expr", rng.choice(LOCS), tn, tuple(rng.choice(LOCS) for _ in range(ar)))
        if not legal(orc, op):
            continue
        orc.apply(op)
        ops.append(op)
    return ops


def close(a, b):
    if isinstance(a, float) or isinstance(b, float):
        try:
            if a != a and b != b:
                return True
            return abs(a - b) <= 1e-9 * max(1.0, abs(a), abs(b))
        except TypeError:
            return False
    return a == b
