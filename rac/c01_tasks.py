"""C01, the clause "each target of a function or linear-knob task holds what that task prescribes" (and every expression-defined
location still equals its expression when such tasks write its inputs).

Histories over the containers of rac/mgrgen.py mix assignments / expression definitions with
  knob  : m.register(LinearKnob(id, source, weights, targets))  -- every later change d of the source adds w_i * d to target_i
  ftask : m.register(FunctionTask(id, action, targets, dependencies)) with an action that computes a template of its sources on the raw
          data and stores it into the raw target; `targets` / `dependencies` are the owner-closed sets the references report
          (target._get_dependencies(), the union of source._get_dependencies()), as a careful user passes them
The pull-model oracle keeps, besides the definitions, each knob's last-seen source value: after every operation it adds w_i * (new - old) to
the targets of every knob whose source value changed (repeated until nothing changes: knobs may feed one another), and evaluates function
tasks like definitions.  Direct assignment to a function task's target is not generated (the task keeps owning it); a knob's target can be
assigned by hand (later source changes add to the new value)."""
import itertools
from rac import mgrgen as G

TASK_SRC = '''
import xdeps.tasks as _T
def _get(data, loc):
    cur = data
    for s in loc:
        cur = getattr(cur, s[1:]) if isinstance(s, str) and s.startswith(".") else cur[s]
    return cur
def _set(data, loc, v):
    cur = data
    for s in loc[:-1]:
        cur = getattr(cur, s[1:]) if isinstance(s, str) and s.startswith(".") else cur[s]
    s = loc[-1]
    if isinstance(s, str) and s.startswith("."):
        setattr(cur, s[1:], v)
    else:
        cur[s] = v
def _ref(r, loc):
    cur = r
    for s in loc:
        cur = getattr(cur, s[1:]) if isinstance(s, str) and s.startswith(".") else cur[s]
    return cur
_F = {"dbl": lambda s: 2 * s, "inc": lambda s: s + 1, "sum": lambda s, t: s + t, "mix": lambda s, t: s * t - 1,
      "tot": lambda c: float(sum(c.values())) if isinstance(c, dict) else float(sum(c))}
def add_knob(m, r, name, src, pairs):
    m.register(_T.LinearKnob(name, _ref(r, src), [w for _, w in pairs], [_ref(r, t) for t, _ in pairs]))
def add_ftask(m, r, d, name, tgt, tn, srcs):
    deps = set()
    for s in srcs:
        _ref(r, s)._get_dependencies(deps)
    def action():
        _set(d, tgt, _F[tn](*[_get(d, s) for s in srcs]))
    m.register(_T.FunctionTask(name, action, _ref(r, tgt)._get_dependencies(), deps))
    m.run_tasks(m.find_tasks(deps))          # (registering does not run the task: everything downstream of its inputs is brought up to date once, through the manager)
'''
exec(TASK_SRC)


def norm(loc):
    """one spelling per location for the oracle: l[-1] is l[2]"""
    return ("l", loc[1] + 3) if len(loc) == 2 and loc[0] == "l" and isinstance(loc[1], int) and loc[1] < 0 else loc


class KOracle(G.Oracle):
    def __init__(self):
        super().__init__()
        self.knobs = []          # dict(src, prev, pairs)
        self.ftargets = set()

    def upstream(self, p):
        out = list(self.sources(self.defs[p])) if p in self.defs else []
        for kb in self.knobs:
            if any(t == p for t, _ in kb["pairs"]):
                out.append(kb["src"])
        return out

    def reaches(self, start, goal):
        """does `goal` lie upstream of one of `start` (is it read, transitively, to compute them)"""
        seen, todo = set(), list(start)
        while todo:
            p = todo.pop()
            if p == goal:
                return True
            if p in seen:
                continue
            seen.add(p)
            todo += self.upstream(p)
        return False

    def expand(self, srcs):
        return [m for s in srcs for m in (G.members(self.base, s) if G.is_container(s) else [s])]

    def legal(self, op):
        k = op[0]
        if k == "expr":
            tgt = op[1]
            if tgt in self.ftargets or any(t == tgt for kb in self.knobs for t, _ in kb["pairs"]):
                return False
            return not self.reaches(self.expand(op[3]), tgt)
        if k == "ftask":
            tgt = op[1]
            if tgt in self.defs or any(t == tgt for kb in self.knobs for t, _ in kb["pairs"]):
                return False
            return not self.reaches(self.expand(op[3]), tgt)
        if k == "knob":
            src, pairs = op[1], [(norm(t), w) for t, w in op[2]]
            if any(t in self.defs or t == src for t, _ in pairs):
                return False
            return not any(self.reaches([src], t) for t, _ in pairs)
        if k in ("val", "iop", "unreg"):
            if op[1] in self.ftargets:
                return False
            if k == "val" and G.is_container(op[1]):
                mem = G.members(self.base, op[1])
                return not any(m in self.defs or any(t == m for kb in self.knobs for t, _ in kb["pairs"]) for m in mem)
            return True
        return True

    def settle(self):
        for _ in range(20):
            moved = False
            for kb in self.knobs:
                cur = self.value(kb["src"])
                if cur != kb["prev"]:
                    for t, w in kb["pairs"]:
                        G.set_raw(self.base, t, G.get_raw(self.base, t) + w * (cur - kb["prev"]))
                    kb["prev"] = cur
                    moved = True
            if not moved:
                return

    def apply(self, op):
        if op[0] == "knob":
            self.knobs.append(dict(src=op[1], prev=self.value(op[1]), pairs=[(norm(t), w) for t, w in op[2]]))
        elif op[0] == "ftask":
            self.defs[op[1]] = (op[2], tuple(op[3]))
            self.ftargets.add(op[1])
        else:
            super().apply(op)
        self.settle()


def opstr(op):
    if op[0] == "knob":
        return f"knob({G.locstr(op[1])} -> " + ", ".join(f"{w}*{G.locstr(t)}" for t, w in op[2]) + ")"
    if op[0] == "ftask":
        return f"ftask({G.locstr(op[1])} := {op[2]}({', '.join(G.locstr(s) for s in op[3])}))"
    return G.opstr(op)


def script(ops, tail):
    """standalone reproduction: mgrgen's script for the plain operations, the task registrations spliced in"""
    lines = []
    for i, op in enumerate(ops):
        if op[0] == "knob":
            lines.append(f"add_knob(m, r, 'knob{i}', {op[1]!r}, {list(op[2])!r})")
        elif op[0] == "ftask":
            lines.append(f"add_ftask(m, r, d, 'ftask{i}', {op[1]!r}, {op[2]!r}, {list(op[3])!r})")
        else:
            lines.append(G.history_script([op]).split("r = m.ref(d, 'd')\n", 1)[1].strip("\n"))
    need_f = any(op[0] == "expr" and op[2] in G.CTEMPLATES for op in ops)
    head = G.history_script([])
    if need_f:
        head += ("class H:\n    @staticmethod\n    def tot(c): return float(sum(c.values())) if isinstance(c, dict) else float(sum(c))\n"
                 "f = m.ref(H, 'f')\n")
    return head + TASK_SRC + "\n".join(lines) + "\n" + tail


def apply_world(w, op, i):
    if op[0] == "knob":
        add_knob(w.m, w.r, f"knob{i}", op[1], list(op[2]))
    elif op[0] == "ftask":
        add_ftask(w.m, w.r, w.data, f"ftask{i}", op[1], op[2], list(op[3]))
    else:
        w.apply(op)
        return
    if not w.k1_seen and G.declared_cycle(w.m):
        w.k1_seen = True


CHECKED = list(G.LOCS) + [("l", 2)]


def run_history(rac, ops):
    w, orc = G.World(), KOracle()
    done = []
    for i, op in enumerate(ops):
        if not orc.legal(op):
            return False
        done.append(op)
        orc.apply(op)
        what = None
        try:
            apply_world(w, op, i)
            memo = {}
            exp = {l: orc.value(l, memo) for l in CHECKED}
            act = {l: G.get_raw(w.data, l) for l in CHECKED}
            bad = [(l, exp[l], act[l]) for l in CHECKED if not G.close(exp[l], act[l])]
            if bad:
                what = "stale/wrong values: " + "; ".join(f"{G.locstr(l)} is {a!r}, the definitions / tasks give {e!r}" for l, e, a in bad[:3])
        except Exception as ex:     # noqa
            what = f"raised {type(ex).__name__}: {ex}"
            bad = [None]
        if bad:
            hist = "; ".join(opstr(o) for o in done)
            k1 = w.k1_seen or G.declared_cycle(w.m)
            memo = {}
            tail = "exp = %r\n" % {G.locstr(l): orc.value(l, memo) for l in CHECKED} + \
                "act = {k: eval(k) for k in exp}\nbad = {k: (act[k], exp[k]) for k in exp if abs(act[k]-exp[k]) > 1e-9*max(1,abs(exp[k]))}\n" \
                "assert not bad, ('location: (actual, expected)', bad)\nprint('all locations consistent')\n"
            rac.fail(("K1:sibling-feed " if k1 else "tasks ") + hist, f"C01 after [{hist}]: {what}", script(done, tail),
                     "LinearKnob.run" if any(o[0] == "knob" for o in done) else "FunctionTask.run")
            return True
    return True


def alphabet():
    return [
        ("knob", ("a",), ((("l", 0), 1.0), (("l", 1), 2.0))), ("knob", ("b",), ((("n", "x"), 0.5), (("c",), -1.0))),
        ("knob", ("c",), ((("o", ".p"), 3.0),)), ("knob", ("a",), ((("l", 0), -1.5),)),
        # the same location twice in one knob (two weights; the second also spelled from the end of the list): the contributions add up
        ("knob", ("b",), ((("l", 1), 1.0), (("l", 1), 0.25))), ("knob", ("a",), ((("l", 2), 2.0), (("l", -1), -0.5))),
        ("ftask", ("c",), "sum", (("a",), ("b",))), ("ftask", ("n", "y"), "dbl", (("a",),)), ("ftask", ("o", ".q"), "tot", (("l",),)),
        ("ftask", ("l", 2), "mix", (("n", "x"), ("b",))),
        ("expr", ("c",), "sum", (("a",), ("b",))), ("expr", ("o", ".q"), "tot", (("l",),)), ("expr", ("b",), "tot", (("n",),)),
        ("expr", ("n", "z"), "dbl", (("l", 0),)), ("expr", ("a",), "inc", (("n", "y"),)),
        ("val", ("a",), 5.0), ("val", ("b",), -2.0), ("val", ("l", 0), 7.0), ("val", ("c",), 0.25), ("iop", ("a",), "+=", 3.0),
    ]


def run(rac):
    quick = rac.tier == "quick"
    alpha = alphabet()
    L = 3 if quick else 4
    rac.section("knob+function-tasks", f"every history of length <= {L} over {len(alpha)} operations: linear knobs (one and two targets, in a list, a dict, "
                "an attribute object, chained through an expression), function tasks (of two locations, of a whole container), expression definitions "
                "reading the tasks' targets one by one or through their container, plain and in-place assignments to sources and to knob targets; every "
                "location compared after every step with: knob targets = value when the knob was made / last assigned + w * (change of the source "
                "since), function-task targets = the function of the current data, expression-defined locations = their expression; "
                "non-trivial = a knob or function task is present", f"length<={L}, |alphabet|={len(alpha)}")
    for n in range(1, L + 1):
        for ops in itertools.product(alpha, repeat=n):
            if n > 2 and rac.out_of_time(0.78):
                rac.sections["knob+function-tasks"]["exhaustive"] = False
                rac.exhaustive = False
                break
            if not any(o[0] in ("knob", "ftask") for o in ops):
                continue
            if run_history(rac, ops):
                rac.case(("tasks",) + ops, nontrivial=True, sample=[opstr(o) for o in ops])
