"""C19 bounded stand-in: MAD-X expressions mean the same deferred as evaluated immediately.

For generated strings of the MAD-X grammar (NUMBER forms, dotted names, element->attribute, one / two argument calls,
^ and **, unary signs, nesting to depth 3, fully parenthesised mirrors):
   deferred  = env.madexpr(s)._get_value()      immediate = env.madeval(s)      python = eval(mirror(s))
must agree (NaN == NaN; a zero division gives NaN deferred and raises immediately), again after the variables and element
attributes were changed through the manager, again when the same string is evaluated a second time after a change, and
expressions that differ only in a literal must not be confused.
"""
import copy
import itertools
import math
import os
import sys
sys.path.insert(0, os.path.dirname(os.path.dirname(os.path.abspath(__file__))))
from rac.common import Rac, PRELUDE

SRC = '''
import math
from xdeps.madxutils import MadxEnv, MadxEval
import xdeps
VARS = {"a": 1.5, "b": -2.0, "c.d": 0.5, "k1": 3.0, "z": 0.0, "n": 3, "p": 10, "t": 0.1, "u": 1e-300, "res": 0.0}
ELS = {"q1": {"k1": 0.25, "l": 2.0}, "m.b": {"angle": -0.125, "l": 0.0}}
def mkenv_fresh():
    env = MadxEnv()
    env._variables.update(VARS)
    for k, v in ELS.items():
        env._elements[k] = dict(v)
    return env
def val(x):
    return x._get_value() if hasattr(x, "_get_value") else x      # a constant expression is a plain number
_ENV = []
def mkenv():
    """one environment (two LALR parsers) reused across cases: reset to the initial data"""
    if not _ENV:
        _ENV.append(mkenv_fresh())
    env = _ENV[0]
    env._variables.clear(); env._variables.update(VARS)
    for k, v in ELS.items():
        env._elements[k].clear(); env._elements[k].update(v)
    return env
def num(x):
    """the value as Python sees it (numpy scalars unwrapped); NOT converted to float: 3**40 and 3.0**40 are different numbers"""
    x = x.item() if hasattr(x, "item") and not isinstance(x, (int, float)) else x
    if isinstance(x, complex):
        return x                        # (a negative base under a fractional power: Python's result is complex)
    if isinstance(x, bool) or not isinstance(x, (int, float)):
        return float(x)
    return x
def same(x, y):
    try:
        if x != x and y != y:
            return True
        # exact: the deferred form performs the same IEEE operations in the same order as the immediate one and as Python on the
        # fully parenthesised mirror (a re-associated product differs in the last bit, or overflows)
        return x == y
    except TypeError:
        return x == y
def three(env, s, mirror=None, ns=None):
    """-> (deferred, immediate, python) each a number or the name of the exception class"""
    out = []
    for f in (lambda: val(env.madexpr(s)), lambda: env.madeval(s)):
        try:
            out.append(num(f()))
        except ZeroDivisionError:
            out.append("ZeroDivisionError")
        except Exception as ex:
            out.append(type(ex).__name__)
    if mirror is not None:
        try:
            out.append(num(eval(mirror, {"math": math}, ns)))
        except ZeroDivisionError:
            out.append("ZeroDivisionError")
        except Exception as ex:
            out.append(type(ex).__name__)
    return out
import ast as _ast
class _DivT(_ast.NodeTransformer):
    def visit_BinOp(self, n):
        self.generic_visit(n)
        if isinstance(n.op, _ast.Div):
            return _ast.copy_location(_ast.Call(func=_ast.Name(id="_div", ctx=_ast.Load()), args=[n.left, n.right], keywords=[]), n)
        return n
def _div(a, b):
    try:
        return a / b
    except ZeroDivisionError:
        return float("nan")
def nan_mirror(mirror, ns):
    """what the statement prescribes for the deferred form: Python arithmetic on the fully parenthesised mirror in which a division
    by zero yields NaN (which then propagates by IEEE rules: nan ** 0 == 1.0, 1.0 ** nan == 1.0)"""
    tree = _ast.fix_missing_locations(_DivT().visit(_ast.parse(mirror, mode="eval")))
    try:
        return num(eval(compile(tree, "<mirror>", "eval"), {"math": math, "_div": _div}, dict(ns)))
    except ZeroDivisionError:
        return "ZeroDivisionError"
    except Exception as ex:
        return type(ex).__name__
def agree(vals, has_pow=False, expect=None):
    """deferred vs the others: equal numbers; NaN deferred where the others raise ZeroDivisionError (a zero raised to a
    negative power is not a division: there the deferred form raises like the immediate one)"""
    d = vals[0]
    for o in vals[1:]:
        if o == "ZeroDivisionError" and expect is not None:
            # somewhere a division by zero: the deferred value is the NaN-propagating reading of the same expression
            if isinstance(expect, str) or isinstance(d, str):
                if expect != d:
                    return False
            elif not same(d, expect):
                return False
        elif o == "ZeroDivisionError":
            if not ((isinstance(d, (float, complex)) and d != d) or (has_pow and d == "ZeroDivisionError")):
                return False
        elif isinstance(o, str) or isinstance(d, str):
            if o != d:
                return False
        elif not same(d, o):
            return False
    return True
def pyns(env):
    ns = {}
    for k, v in env._variables.items():
        ns[k.replace(".", "_dot_")] = v
    for k, v in env._elements.items():
        ns["el_" + k.replace(".", "_dot_")] = v
    return ns
'''
exec(SRC)

ATOMS = [("0", "0"), ("1", "1"), ("2.5", "2.5"), ("1e-3", "1e-3"), (".5", ".5"), ("3.", "3."), ("a", "a"), ("b", "b"), ("c.d", "c_dot_d"), ("k1", "k1"), ("z", "z"), ("n", "n"),
         ("q1->k1", "el_q1['k1']"), ("m.b->angle", "el_m_dot_b['angle']"), ("q1->l", "el_q1['l']"), ("m.b->l", "el_m_dot_b['l']"),
         ("undefined_var", "0")]


def gen(depth, rng=None):
    """-> list of (madx string, fully parenthesised python mirror)"""
    if depth == 0:
        return ATOMS
    sub = gen(depth - 1)
    if depth >= 2:
        sub = sub[::max(1, len(sub) // 14)]
    out = list(ATOMS)
    for (s, p) in sub:
        out += [(f"-({s})", f"(-({p}))"), (f"+({s})", f"(+({p}))"), (f"({s})", f"({p})"), (f"sin({s})", f"math.sin({p})"), (f"abs({s})", f"abs({p})") if False else (f"sqrt({s})", f"math.sqrt({p})"),
                (f"atan2({s},{s})", f"math.atan2({p},{p})")]
    for (s1, p1), (s2, p2) in itertools.product(sub, repeat=2):
        for op, pop in (("+", "+"), ("-", "-"), ("*", "*"), ("/", "/"), ("^", "**"), ("**", "**")):
            out.append((f"({s1}){op}({s2})", f"(({p1}){pop}({p2}))"))
    return out


def precedence_cases():
    """unparenthesised strings with their grammar-defined reading (precedence by rule nesting, left associative)"""
    return [("a+b*k1", "(a+(b*k1))"), ("a-b-k1", "((a-b)-k1)"), ("a/b/k1", "((a/b)/k1)"), ("a*b^2", "(a*(b**2))"), ("-a^2", "(-(a**2))") if False else ("a^2^3", "((a**2)**3)"),
            ("a+-b", "(a+(-b))"), ("2^-2", "(2**(-2))"), ("+1+2^-2", "((+1)+(2**(-2)))"), ("a*-b", "(a*(-b))"), ("1+a.b*-3", "(1+(0*(-3)))") if False else ("1+c.d*-3", "(1+(c_dot_d*(-3)))"),
            ("q1->k1*q1->l", "(el_q1['k1']*el_q1['l'])"), ("sin(a)^2", "(math.sin(a)**2)"), ("a/b*k1", "((a/b)*k1)"), ("a - b + k1", "((a-b)+k1)")]


def main():
    rac = Rac("C19")
    quick = rac.tier == "quick"
    # (the first two changes assign a number that compares == to the stored one but is a different number: -0.0 over 0.0, 3.0 over the integer 3)
    changes = [("z", -0.0), ("n", 3.0), ("a", 4.0), ("z", 2.0), ("b", 0.0), ("c.d", -1.25)]
    rac.section("grammar", "strings derivable from the MAD-X grammar to depth 2 (quick) / 3 (atoms: NUMBER forms, dotted variable names, "
                "element->attribute, undefined variable; unary signs, parentheses, 1- and 2-argument calls, + - * / ^ ** on "
                "parenthesised operands): deferred value == immediate value == Python on the fully parenthesised mirror (NaN "
                "deferred where division by zero raises), initially and after each of 6 changes made through the manager (two of them to a number that compares equal to the stored one: -0.0 over 0.0, 3.0 over 3), with "
                "the same string re-evaluated immediately after the change; non-trivial = the string contains an operator",
                f"depth<={2 if quick else 3}")
    cases = gen(2 if quick else 3)
    if quick:
        cases = cases[:len(ATOMS) + 200] + cases[len(ATOMS) + 200::3]
    for s, mirror in cases:
        if rac.out_of_time(0.8):
            rac.sections["grammar"]["exhaustive"] = False
            rac.exhaustive = False
            break
        env = mkenv()
        scr = PRELUDE + SRC + f"env = mkenv()\ns = {s!r}; mirror = {mirror!r}\nvals = three(env, s, mirror, pyns(env))\nprint(vals)\nassert agree(vals, {("^" in s or "**" in s)!r}, nan_mirror(mirror, pyns(env))), vals\n"
        try:
            ex = env.madexpr(s)
        except Exception as ex_:      # noqa  (not a sentence of the grammar)
            continue
        steps = [("initially", None)] + [(f"after {k} = {v}", (k, v)) for k, v in changes]
        bad = None
        # the Python side reads its OWN record of the assigned values (not the containers the manager writes)
        ns = copy.deepcopy(pyns(env))
        scr += "import copy\nns = copy.deepcopy(pyns(env))\n"
        for label, ch in steps:
            if ch is not None:
                env._vref[ch[0]] = ch[1]
                env._eref["q1"]["k1"] = env._elements["q1"]["k1"] + 1.0
                ns[ch[0].replace(".", "_dot_")] = ch[1]
                ns["el_q1"]["k1"] = ns["el_q1"]["k1"] + 1.0
                scr += f"env._vref[{ch[0]!r}] = {ch[1]!r}; env._eref['q1']['k1'] = env._elements['q1']['k1'] + 1.0; ns[{ch[0].replace('.', '_dot_')!r}] = {ch[1]!r}; ns['el_q1']['k1'] += 1.0\n"
            try:
                d = num(val(ex))
            except Exception as e2:     # noqa
                d = type(e2).__name__
            vals = three(env, s, mirror, ns)
            scr += f"vals = three(env, s, mirror, ns); print({label!r}, vals); assert agree(vals, {("^" in s or "**" in s)!r}, nan_mirror(mirror, ns)), ({label!r}, vals)\n"
            hp = "^" in s or "**" in s
            expct = nan_mirror(mirror, ns)
            if not agree(vals, hp, expct) or not agree([d, vals[1]], hp, expct):
                bad = (label, [d] + vals)
                break
        rac.case(s, nontrivial=any(c in s for c in "+-*/^("), sample=s)
        if bad:
            rac.fail("grammar " + s, f"C19 {s!r} {bad[0]}: expression built earlier / deferred / immediate / Python give {bad[1]}", scr, "MadxEval")
    rac.section("equal-valued-changes", "variables changed through the manager to a number that compares == to the stored one but is a different number "
                "(-0.0 <-> 0.0: visible through atan2; int <-> float of the same value: integer arithmetic is exact beyond 2**53), interleaved with "
                "ordinary changes: deferred == immediate == Python after every change", "12 strings x 7 changes")
    ev_cases = [("atan2(z,(-1))", "math.atan2(z,(-1))"), ("atan2(z,(-a))", "math.atan2(z,(-a))"), ("atan2((z*a),(-1))", "math.atan2((z*a),(-1))"),
                ("(p^(p+p))+1", "((p**(p+p))+1.0)"), ("((p^(p+p))+n)-(p^(p+p))", "(((p**(p+p))+n)-(p**(p+p)))"), ("n^40", "(n**40.0)"),
                ("(a+(z*n))", "(a+(z*n))"), ("atan2(z,(-1))*p^(p+p+1)", "(math.atan2(z,(-1.0))*(p**((p+p)+1.0)))"),
                # neutral literals next to a signed zero: (-0.0) + 0 is +0.0 (wave 10, C19-19: x + 0 rewritten to x when the expression is built)
                ("atan2((0)+(-(z)),(-1))", "math.atan2(((0)+(-(z))),(-1))"), ("atan2((-(z))+(0),(-1))", "math.atan2(((-(z))+(0)),(-1))"),
                ("atan2((-(z))-(0),(-1))", "math.atan2(((-(z))-(0)),(-1))"), ("atan2((1)*(-(z)),(-1))", "math.atan2(((1)*(-(z))),(-1))")]
    ev_changes = [("z", -0.0), ("a", -3.5), ("z", 0.0), ("p", 10.0), ("n", 3.0), ("p", 10), ("z", -0.0)]
    for s, mirror in ev_cases:
        env = mkenv()
        try:
            ex = env.madexpr(s)
        except Exception:     # noqa
            continue
        # the Python side reads its OWN record of the assigned values (not the container the manager writes)
        ns = copy.deepcopy(pyns(env))
        scr = PRELUDE + SRC + f"import copy\nenv = mkenv()\ns = {s!r}; mirror = {mirror!r}\nex = env.madexpr(s)\nns = copy.deepcopy(pyns(env))\n"
        for k, v in ev_changes:
            env._vref[k] = v
            ns[k] = v
            scr += f"env._vref[{k!r}] = {v!r}; ns[{k!r}] = {v!r}\nvals = [num(val(ex))] + three(env, s, mirror, ns); print({k!r}, {v!r}, vals); assert agree(vals, True, nan_mirror(mirror, ns)), vals\n"
            try:
                d = num(val(ex))
            except Exception as e2:     # noqa
                d = type(e2).__name__
            vals = three(env, s, mirror, ns)
            rac.case((s, k, repr(v)), sample=dict(string=s, change=f"{k} = {v!r}"))
            expct = nan_mirror(mirror, ns)
            if not agree(vals, True, expct) or not agree([d, vals[1]], True, expct):
                rac.fail(f"equal-valued {s} {k}={v!r}", f"C19 {s!r} after {k} = {v!r} (through the manager): expression built earlier / deferred / immediate / Python give {[d] + vals}",
                         scr, "Manager.set_value")
                break
    rac.section("two-environments", "TWO environments in one process (two managers, the same container labels, different variable and element values) "
                "evaluating the same strings one after the other, in both orders, then a variable of the second changed through ITS manager: each deferred "
                "value equals the immediate value and the Python mirror of its OWN environment (nothing shared between environments: wave 9, C19-17)",
                "10 strings x 2 orders x 2 changes")
    TWO = '''
def mk2():
    e1 = mkenv_fresh()
    e2 = mkenv_fresh()
    e2._variables.update({"a": 7.0, "b": 5.0, "k1": -1.0, "z": 2.0, "n": 4})
    e2._elements["q1"].update({"k1": 1.0, "l": 3.0})
    return e1, e2
'''
    exec(TWO, globals())
    two_cases = [("(a+b)*(q1->k1)", "((a+b)*(el_q1['k1']))"), ("a", "a"), ("a+b", "(a+b)"), ("q1->l", "el_q1['l']"), ("sin(a)*k1", "(math.sin(a)*k1)"), ("(a^n)-z", "((a**n)-z)"),
                 ("atan2(a,b)", "math.atan2(a,b)"), ("-(b)", "(-(b))"), ("(k1/z)", "(k1/z)"), ("a*b*k1", "((a*b)*k1)")]
    for s2, mirror in two_cases:
        for order in ("first-then-second", "second-then-first"):
            e1, e2 = mk2()
            scr = PRELUDE + SRC + TWO + f"import copy\ne1, e2 = mk2()\ns = {s2!r}; mirror = {mirror!r}\n"
            seq = [("e1", e1), ("e2", e2)] if order == "first-then-second" else [("e2", e2), ("e1", e1)]
            exprs = {}
            bad = None
            try:
                for nm, e in seq:
                    exprs[nm] = e.madexpr(s2)
                    scr += f"x_{nm} = {nm}.madexpr(s)\n"
                for step in ("initially", ("a", -2.25), ("k1", 0.5)):
                    if step != "initially":
                        e2._vref[step[0]] = step[1]
                        scr += f"e2._vref[{step[0]!r}] = {step[1]!r}\n"
                    for nm, e in seq:
                        ns = copy.deepcopy(pyns(e))
                        d = num(val(exprs[nm]))
                        vals = three(e, s2, mirror, ns)
                        scr += f"ns = copy.deepcopy(pyns({nm})); vals = [num(val(x_{nm}))] + three({nm}, s, mirror, ns); print({nm!r}, vals); assert agree(vals, True, nan_mirror(mirror, ns)), ({nm!r}, vals)\n"
                        rac.case((s2, order, str(step), nm), sample=dict(string=s2, order=order, step=str(step), environment=nm))
                        expct = nan_mirror(mirror, ns)
                        if not agree(vals, True, expct) or not agree([d, vals[1]], True, expct):
                            bad = f"{nm} {step if step == 'initially' else 'after ' + step[0] + ' = ' + repr(step[1]) + ' in the second environment'}: expression built earlier / deferred / immediate / Python give {[d] + vals}"
                            break
                    if bad:
                        break
            except Exception as ex2:      # noqa
                bad = f"raised {type(ex2).__name__}: {ex2}"
            if bad:
                rac.fail(f"two-environments {s2} {order}", f"C19 {s2!r} in two environments ({order}): {bad}", scr, "MadxEval")
    rac.section("variable-redefined-after-use", "a variable y is DEFINED by a deferred expression, another deferred expression mentioning y is built afterwards, then y itself is "
                "re-assigned through the manager (a number, then a new definition): the expression built earlier and a freshly parsed one both follow the CURRENT y "
                "(wave 10, C19-20: the definition of y inlined at parse time)", "4 strings x 3 re-assignments")
    for s3, py3 in [("((y)*(2))+(a)", lambda y, a, b: ((y) * (2)) + (a)), ("y", lambda y, a, b: y), ("(y)^(2)", lambda y, a, b: (y) ** (2)), ("sin(y)+(b)", lambda y, a, b: math.sin(y) + (b))]:
        scr = PRELUDE + SRC + f"env = mkenv_fresh()\nenv._vref['y'] = env.madexpr('(a)*(3)')\nex = env.madexpr({s3!r})\n"
        try:
            env = mkenv_fresh()
            env._vref["y"] = env.madexpr("(a)*(3)")
            ex3 = env.madexpr(s3)
            bad = None
            for step, want_y in (("env._vref['y'] = 1.0", lambda a, b: 1.0), ("env._vref['a'] = 4.0", lambda a, b: 1.0), ("env._vref['y'] = env.madexpr('(b)-(a)')", lambda a, b: b - a)):
                exec(step, dict(env=env))
                a_, b_ = env._variables["a"], env._variables["b"]
                want = py3(want_y(a_, b_), a_, b_)
                got_old, got_new, imm = num(val(ex3)), num(val(env.madexpr(s3))), num(env.madeval(s3))
                scr += step + f"\nvals = [num(val(ex)), num(val(env.madexpr({s3!r}))), num(env.madeval({s3!r}))]; print(vals); assert vals[0] == vals[1] == vals[2], vals\n"
                rac.case((s3, step), sample=dict(string=s3, step=step))
                if not (same(got_old, want) and same(got_new, want) and same(imm, want)):
                    bad = f"after {step}: expression built earlier / deferred / immediate give {[got_old, got_new, imm]}, Python on the current values gives {want}"
                    break
        except Exception as ex9:      # noqa
            bad = f"raised {type(ex9).__name__}: {ex9}"
        if bad:
            rac.fail(f"variable-redefined {s3}", f"C19 y = (a)*(3); {s3!r} built; {bad}", scr, "MadxEval.var")
    rac.section("precedence", "unparenthesised strings against the reading the grammar defines (rule nesting, left associativity, unary "
                "sign binding tighter than ^)", "14 strings")
    for s, mirror in precedence_cases():
        env = mkenv()
        vals = three(env, s, mirror, pyns(env))
        rac.case(s, sample=s)
        if not agree(vals):
            rac.fail("precedence " + s, f"C19 {s!r}: deferred / immediate / Python({mirror}) give {vals}",
                     PRELUDE + SRC + f"env = mkenv()\nvals = three(env, {s!r}, {mirror!r}, pyns(env))\nprint(vals)\nassert agree(vals), vals\n", "MadxEval")
    rac.section("literals", "pairs of strings that differ only in one literal (-1 / -2, 1 / 1.0 / True-like), built by the same "
                "evaluator one after the other: each keeps its own meaning", "12 templates x 6 literal pairs")
    templates = ["(a)^({})", "(a)*({})+(b)", "{}*k1", "sin({})", "a+{}", "({})/(b)", "atan2({},a)", "q1->k1^{}", "-{}+a", "({})**2", "a-({})", "{}"]
    for tpl in templates:
        for x, y in [("-1", "-2"), ("1", "2"), ("0", "-0"), ("1", "1.0"), ("2", "2.0000001"), ("-2", "-1")]:
            env = mkenv()
            s1, s2 = tpl.format(x), tpl.format(y)
            try:
                e1 = env.madexpr(s1)
                e2 = env.madexpr(s2)
                v = [float(val(e1)), float(env.madeval(s1)), float(val(e2)), float(env.madeval(s2))]
            except ZeroDivisionError:
                continue
            except Exception as ex_:     # noqa
                continue
            rac.case((tpl, x, y), sample=(s1, s2))
            if not (same(v[0], v[1]) and same(v[2], v[3])):
                rac.fail(f"literals {s1} {s2}", f"C19 {s1!r} then {s2!r} from one evaluator: deferred/immediate {v[:2]} and {v[2:]}",
                         PRELUDE + SRC + f"env = mkenv()\ne1 = env.madexpr({s1!r}); e2 = env.madexpr({s2!r})\nv = [val(e1), env.madeval({s1!r}), val(e2), env.madeval({s2!r})]\nprint(v)\n"
                         "assert same(v[0], v[1]) and same(v[2], v[3]), v\n", "MadxEval.eval")
    rac.section("integers+zero-factors", "integer-valued variables under large powers (exact integer vs floating result, overflow), and factors "
                "that are literally zero in front of a sub-expression that raises or becomes NaN once a variable is set to 0 through the "
                "manager: deferred == immediate (NaN where a division by zero raises), initially and after each change",
                "38 strings x 6 changes; each string also ASSIGNED to a variable through the manager, whose stored value must follow")
    crafted = ["n^40", "p^400", "n^40.0", "(n*p)^20", "n**64", "2^62*n", "n^2", "p^-2", "n^0.5", "(n+p)^30/n^30",
               "0*(a/z)", "(a/z)*0", "0*(a/b)", "0.0*(k1/b)+a", "0*sqrt(b)", "sqrt(b)*0", "0*(p^400)", "a+0*(1/z)", "0*q1->k1/z", "-0*(a/z)",
               "(a/z)*0.0", "0*(a/(b+2))",
               # products / sums with two literals in a row (re-association changes the last bit or overflows); calls as LEFT operands
               "t*3*3", "u*1e200*1e200", "t*0.1*0.1", "3*t*3", "t/3/3", "t+0.1+0.2", "t-0.3-0.1", "t*3*3*3", "q1->k1*0.1*3",
               "atan2(a,b)/q1->l", "sin(a)*b", "sqrt(k1)+z", "atan2(a,b)+atan2(b,a)", "sin(a)^2+cos(b)^2", "abs(b)*k1+a", "exp(z)/k1-1"]
    for s in crafted:
        env = mkenv()
        hp = "^" in s or "**" in s
        scr = PRELUDE + SRC + f"env = mkenv()\ns = {s!r}\nex = env.madexpr(s)\nhp = {hp!r}\ndef chk(label):\n    try:\n        d = num(val(ex))\n    except Exception as e2:\n        d = type(e2).__name__\n" \
            "    vals = three(env, s); print(label, [d] + vals)\n    assert agree(vals, hp) and agree([d, vals[1]], hp), (label, [d] + vals)\nchk('initially')\n"
        try:
            ex = env.madexpr(s)
        except Exception:      # noqa
            continue
        # the same expression as the DEFINITION of a variable: the stored value is kept up to date by the manager (dependencies)
        stored_ok = True
        try:
            env._vref["res"] = env.madexpr(s)
        except Exception:      # noqa  (a definition that cannot be evaluated now: only the pull form is checked)
            stored_ok = False
        scr += "try:\n    env._vref['res'] = env.madexpr(s); stored_ok = True\nexcept Exception:\n    stored_ok = False\n" \
               "def chk_stored(label):\n    if stored_ok:\n        v = three(env, s)\n        st_ = num(env._variables['res'])\n" \
               "        assert agree([st_, v[1]], hp), (label, 'stored', st_, 'immediate', v[1])\nchk_stored('initially')\n"
        bad = None
        for label, ch in [("initially", None)] + [(f"after {k} = {v}", (k, v)) for k, v in changes + [("n", 7), ("z", 0.0)]]:
            if ch is not None:
                try:
                    env._vref[ch[0]] = ch[1]
                except Exception:      # noqa  (the definition of `res` raises on the new values: the pull form is still compared)
                    stored_ok = False
                scr += f"try:\n    env._vref[{ch[0]!r}] = {ch[1]!r}\nexcept Exception:\n    stored_ok = False\nchk({label!r}); chk_stored({label!r})\n"
            try:
                d = num(val(ex))
            except Exception as e2:     # noqa
                d = type(e2).__name__
            vals = three(env, s)
            if not agree(vals, hp) or not agree([d, vals[1]], hp):
                bad = (label, [d] + vals)
                break
            if stored_ok:
                st_ = num(env._variables["res"])
                if not agree([st_, vals[1]], hp):
                    bad = (label + " (value STORED for a variable defined by the expression)", [st_] + vals)
                    break
        rac.case(("crafted", s), sample=s)
        if bad:
            rac.fail("crafted " + s, f"C19 {s!r} {bad[0]}: expression built earlier / deferred / immediate give {bad[1]}", scr, "MadxEval")
    rac.section("attribute-mode+assignments", "the same grammar with elements accessed as ATTRIBUTES (get='attr'), and assignment sentences "
                "`name = expression` evaluated deferred (they define the variable through the manager): the stored values follow every later "
                "change of a variable or of an element attribute made through the manager with plain keys, and equal immediate evaluation",
                "6 expressions x 2 ways of defining x 7 changes (incl. an element replaced as a whole), chains of two assignments")
    ATTR_SRC = """
import math, xdeps
from xdeps.madxutils import MadxEval
class El:
    def __init__(self, **kw): self.__dict__.update(kw)
def mkattr():
    m = xdeps.Manager()
    v = {"a": 1.5, "b": -2.0, "res": 0.0, "c": 0.0, "d": 0.0}
    e = {"q1": El(k1=0.25, l=2.0), "m.b": El(angle=-0.125, l=0.5)}
    vr, er, fr = m.ref(v, "v"), m.ref(e, "e"), m.ref(math, "f")
    return m, v, e, vr, er, MadxEval(vr, fr, er, get="attr").eval, MadxEval(v, math, e, get="attr").eval
"""
    aenv = {}
    exec(ATTR_SRC, aenv)
    # (the last two: an element REPLACED as a whole through the manager after the expression has been evaluated, then changed again)
    achanges = ["vr['a'] = 4.0", "er['q1'].k1 = 1.0", "er['m.b'].angle = 0.75", "vr['b'] = 0.5", "er['q1'] = El(k1=3.0, l=0.25)", "er['q1'].k1 = -1.5",
                "er['m.b'] = El(angle=0.5, l=4.0)"]
    for ex_s in ["q1->k1*2+a", "m.b->angle/q1->l", "sin(q1->k1)+b", "q1->k1^2*m.b->l", "a*b", "atan2(q1->l,a)-m.b->angle"]:
        for how in ("vr['res'] = dexpr(S)", "dexpr('res = ' + S)"):
            m_, v_, e_, vr_, er_, dexpr, iexpr = aenv["mkattr"]()
            loc = dict(vr=vr_, er=er_, dexpr=dexpr, S=ex_s, El=aenv["El"])
            key = f"attr-mode {ex_s} via {how}"
            scr = PRELUDE + ATTR_SRC + f"m, v, e, vr, er, dexpr, iexpr = mkattr()\nS = {ex_s!r}\n{how}\nassert v['res'] == iexpr(S), (v['res'], iexpr(S))\n" + \
                "".join(f"{c}\nassert v['res'] == iexpr(S), ({c!r}, v['res'], iexpr(S))\n" for c in achanges)
            rac.case(key, sample=dict(expr=ex_s, how=how))
            try:
                exec(how, loc)
                bad = None
                if v_["res"] != iexpr(ex_s):
                    bad = ("at definition", v_["res"], iexpr(ex_s))
                for c in achanges:
                    if bad:
                        break
                    exec(c, loc)
                    if v_["res"] != iexpr(ex_s):
                        bad = ("after " + c, v_["res"], iexpr(ex_s))
            except Exception as ex:      # noqa
                bad = ("raised", type(ex).__name__, str(ex)[:80])
            if bad:
                rac.fail(key, f"C19 attribute mode, res defined by {ex_s!r} ({how}): {bad[0]}: stored {bad[1]!r}, immediate evaluation gives {bad[2]!r}", scr, "MadxEval")
    for mode in ("attr", "item"):
        key = f"assignment chain {mode}"
        src = ATTR_SRC + "m, v, e, vr, er, dexpr, iexpr = mkattr()\n" + ("" if mode == "attr" else
                          "from xdeps.madxutils import MadxEnv\nenv = MadxEnv(); env._variables.update(a=1.5, b=-2.0, c=0.0, d=0.0)\nv, vr, dexpr = env._variables, env._vref, env.madexpr\n") + \
            "dexpr('c = a+b'); dexpr('d = c*2')\nassert (v['c'], v['d']) == (-0.5, -1.0), dict(v)\nvr['a'] = 10.0\nassert (v['c'], v['d']) == (8.0, 16.0), dict(v)\n"
        rac.case(key, sample=dict(mode=mode, sentences=["c = a+b", "d = c*2", "a := 10"]))
        try:
            exec(src, {})
        except AssertionError as ex:
            rac.fail(key, f"C19 ({mode} mode) c = a+b; d = c*2; then a = 10 through the manager: variables {ex}", PRELUDE + src, "MadxEval.assign_var")
        except Exception as ex:      # noqa
            rac.fail(key, f"C19 ({mode} mode) assignment chain raised {type(ex).__name__}: {ex}", PRELUDE + src, "MadxEval.assign_var")
    return rac.finish()


if __name__ == "__main__":
    sys.exit(main())
