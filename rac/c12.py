"""C12 bounded stand-in: managers whose definitions use every node class are pickled and restored;
the copy must pass verify(), have structurally identical definitions (class + every slot, recursively),
react identically to mirrored follow-up assignments and be independent of the original."""
import copy
import itertools
import math
import os
import pickle
import sys
sys.path.insert(0, os.path.dirname(os.path.dirname(os.path.abspath(__file__))))
from rac.common import Rac, PRELUDE

WORLD = '''import xdeps, pickle, math, operator
class Fns:
    @staticmethod
    def f(x, y=10, *, k=1): return x * 100 + y * 10 + k
def world():
    d = dict(a=1.5, b=-2.25, c=3.0, i=1, lst=[10.0, 20.0, 30.0], n=dict(x=4.0, y=5.0), t=0.0, u=0.0, v=0.0)
    m = xdeps.Manager(); r = m.ref(d, "d"); fr = m.ref(Fns, "f")
    return d, m, r, fr
'''
exec(WORLD)

EXPRS = {
    "binary": "r['a'] * 2 + r['b']", "reflected": "3 - r['a']", "compare": "r['a'] < r['b']", "unary": "-r['a']",
    "abs": "abs(r['b'])", "round1": "round(r['a'])", "round2": "round(r['a'], 1)", "divmod": "divmod(r['c'], 2)",
    "floor": "math.floor(r['a'])", "call": "fr.f(r['a'], 2)", "call-kw": "fr.f(r['a'], k=r['b'])",
    "nested-item": "r['n']['x'] + r['n']['y']", "computed-key": "r['lst'][r['i']] * 2", "pow": "r['a'] ** 2",
    "deep": "((r['a'] + 1) * (r['b'] - r['c'])) / (r['n']['x'] + 100)", "eq": "r['a']._eq(r['b'])",
    "literal-mix": "2 * (r['a'] + 0.5) - 1", "bitand": "r['i'] & 3", "mod": "r['c'] % 2",
}
SLOTS = ("_owner", "_key", "_lhs", "_rhs", "_arg", "_op", "_params", "_func", "_args", "_kwargs")

STRUCT = '''
import xdeps.refs as R
SLOTS = ("_owner", "_key", "_lhs", "_rhs", "_arg", "_op", "_params", "_func", "_args", "_kwargs")
def struct(e):
    if isinstance(e, R.Ref): return ("Ref", type(e).__name__, e._key)
    if isinstance(e, R.BaseRef):
        return (type(e).__name__,) + tuple(struct(getattr(e, s)) for s in SLOTS if s in dir(type(e)))
    if isinstance(e, (tuple, list)): return tuple(struct(x) for x in e)
    if callable(e): return getattr(e, "__qualname__", repr(e))
    return e
'''
exec(STRUCT)


def main():
    rac = Rac("C12")
    quick = rac.tier == "quick"
    names = sorted(EXPRS)
    rac.section("pickle", "managers with 1..3 definitions drawn from expressions covering every node class (binary, "
                "reflected, unary, literal mix, builtin with and without parameters, call with kwargs, nested item refs, "
                "computed keys); pickle round trip, verify(), structural equality of definitions, mirrored follow-up "
                "assignments, independence; non-trivial = every case", f"all 1- and 2-subsets{'' if quick else ' and 3-subsets'} of {len(names)} expressions")
    combos0 = [c for n in (1, 2) for c in itertools.combinations(names, n)]
    if not quick:
        combos0 += list(itertools.combinations(names, 3))
    # two placements of the definitions: top-level keys, and members of shared nested containers (several tasks then
    # write into one container: index multiplicities > 1)
    combos = [(c, ["t", "u", "v"], ["r['t']", "r['u']", "r['v']"]) for c in combos0] + \
             [(c, None, ["r['lst'][0]", "r['lst'][2]", "r['n']['y']"]) for c in combos0
              if not set(c) & {"computed-key", "nested-item", "deep"}]
    for combo, targets, tsrc in combos:
        d, m, r, fr = world()
        script = PRELUDE + WORLD + STRUCT + "d, m, r, fr = world()\n" + "".join(
            f"{t} = {EXPRS[n]}\n" for t, n in zip(tsrc, combo)) + \
            "m2 = pickle.loads(pickle.dumps(m))\nm2.verify()\n" \
            "assert {str(k): struct(t.expr) for k, t in m.tasks.items()} == {str(k): struct(t.expr) for k, t in m2.tasks.items()}\n" \
            "d2 = m2.containers['d']._owner\nm2.containers['d']['a'] = 7.0; m.containers['d']['a'] = 7.0\n" \
            "assert all(d[k] == d2[k] or (d[k] != d[k]) for k in ('t', 'u', 'v')), (d, d2)\n" \
            "m2.containers['d']['b'] = 99.0\nassert d['b'] != 99.0, 'copy not independent'\nprint('ok')\n"
        key = ("pickle " if targets else "pickle-nested ") + "+".join(combo)
        try:
            for t, n in zip(tsrc, combo):
                exec(f"{t} = {EXPRS[n]}", dict(r=r, fr=fr, math=math))
        except Exception as ex:      # noqa
            rac.fail(key, f"defining {combo} raised {ex!r}", script, "Manager.set_value")
            continue
        rac.case((combo, bool(targets)), sample=[f"{t} = {EXPRS[n]}" for t, n in zip(tsrc, combo)])
        try:
            m2 = pickle.loads(pickle.dumps(m))
        except BaseException as ex:      # noqa (RecursionError is a BaseException subclass of Exception; be safe)
            rac.fail(key, f"pickling a manager defining {[EXPRS[n] for n in combo]} raised {type(ex).__name__}", script,
                     "BuiltinRef.__reduce__" if any(n in ("abs", "round1", "round2", "divmod", "floor") for n in combo) else "__reduce__")
            continue
        try:
            m2.verify()
            idx = lambda mm: {n: {str(k_): {str(x_): c_ for x_, c_ in v_.items()} for k_, v_ in getattr(mm, n).items() if len(v_)}
                              for n in ("rdeps", "rtasks", "deptasks", "tartasks")}
            if idx(m) != idx(m2):
                bad = [n for n in idx(m) if idx(m)[n] != idx(m2)[n]]
                rac.fail(key, f"restored manager's indices {bad} differ from the original's (multiplicities included)",
                         script + "I = lambda mm: {n: {str(k): {str(x): c for x, c in v.items()} for k, v in getattr(mm, n).items() if len(v)} "
                         "for n in ('rdeps', 'rtasks', 'deptasks', 'tartasks')}\nassert I(m) == I(m2), (I(m), I(m2))\n", "RefCount")
                continue
            s1 = {str(k): struct(t.expr) for k, t in m.tasks.items()}
            s2 = {str(k): struct(t.expr) for k, t in m2.tasks.items()}
            if s1 != s2:
                rac.fail(key, f"restored definitions differ structurally: {s1} vs {s2}", script, "__reduce__")
                continue
            d2 = m2.containers["d"]._owner
            if d2 is d:
                rac.fail(key, "restored manager shares the container with the original", script, "__reduce__")
                continue
            for kk, vv in (("a", 7.0), ("c", -1.0), ("i", 2)):
                m.containers["d"][kk] = vv
                m2.containers["d"][kk] = vv
                if repr(d) != repr(d2):
                    rac.fail(key, f"after {kk} = {vv}: original {d} copy {d2}", script, "__reduce__")
                    break
            # removing a definition afterwards: both must stay consistent and answer queries alike
            for t_ in tsrc[:1]:
                exec(f"{t_} = 1.25", dict(r=m.containers["d"]))
                exec(f"{t_} = 1.25", dict(r=m2.containers["d"]))
            m.verify()
            m2.verify()
            fd = lambda mm: sorted(map(str, mm.find_deps([mm.containers["d"]["a"]])))
            if idx(m) != idx(m2) or fd(m) != fd(m2):
                rac.fail(key, "after removing a definition the restored manager's indices / find_deps differ from the original's",
                         script, "RefCount")
                continue
            before = copy.deepcopy({k: d[k] for k in ("a", "b", "c", "t", "u", "v")})
            m2.containers["d"]["b"] = 99.0
            if {k: d[k] for k in before} != before:
                rac.fail(key, "assignment to the restored copy changed the original", script, "__reduce__")
        except Exception as ex:      # noqa
            rac.fail(key, f"restored manager misbehaves: {type(ex).__name__}: {ex}", script, "__reduce__")
    rac.section("containers", "managers over the library's own container type (the AttrDict that manager.ref() creates by default, also nested), "
                "objects with attributes and lists, definitions and follow-up assignments made through the item AND the attribute route; "
                "frozen managers; also copy.deepcopy: the restored manager's containers show the same contents as the original's after each "
                "mirrored assignment, and stay independent", "7 scenarios x 2 copy routes")
    SC = {
        "default container, item route": ("m = xdeps.Manager(); r = m.ref(); r['a'] = 1.0; r['b'] = r['a'] * 2", "_",
                                          ["r['a'] = 7.0", "r['b'] = 1.0", "r['a'] = 2.0"]),
        "default container, attribute route": ("m = xdeps.Manager(); r = m.ref(); r.a = 1.0; r.b = r.a * 2; r['c'] = r['a'] + 1", "_",
                                               ["r.a = 7.0", "r['a'] = 3.0", "r.b = 1.0", "r.a = -4.0"]),
        "nested AttrDict": ("from xdeps.utils import AttrDict\nd = AttrDict(q=AttrDict(k1=1.0, k2=2.0), s=0.0)\nm = xdeps.Manager(); r = m.ref(d, 'v')\n"
                            "r['q'].k2 = r['q'].k1 * 3; r.s = r.q.k2 + 1", "v", ["r['q'].k1 = 5.0", "r.q.k1 = 6.0", "r['q']['k1'] = 7.0", "r.q.k2 = 0.5"]),
        "object with attributes": ("class O:\n    pass\nglobals()['O'] = O\no = O(); o.x = 1.0; o.y = 0.0\nm = xdeps.Manager(); r = m.ref(o, 'o')\nr.y = r.x + 1",
                                   "o", ["r.x = 4.0", "r.y = 2.0", "r.x = 5.0"]),
        "frozen": ("m = xdeps.Manager(); r = m.ref(); r['a'] = 1.0; r['b'] = r['a'] * 2; m.freeze_tree()", "_", ["r['a'] = 7.0", "r.a = 8.0"]),
        # Manager.refattr: attribute access on the top-level ref means ITEM access (the class of the restored ref matters)
        "refattr container": ("m = xdeps.Manager(); r = m.refattr({'a': 1.0, 'b': 0.0, 'c': 0.0}, 'g'); r.b = r.a * 2; r['c'] = r['b'] + r.a", "g",
                              ["r.a = 7.0", "r['a'] = 3.0", "r.b = r.a + 10", "r.a = -1.0", "r.c = 0.5"]),
        "refattr default container": ("m = xdeps.Manager(); r = m.refattr(); r.a = 1.0; r.b = r.a * 2", "_", ["r.a = 7.0", "r.b = 4.0", "r.a = 2.0"]),
    }
    SNAP = ("def snap(x, depth=0):\n    if isinstance(x, dict):\n        return ('dict', sorted((str(k), snap(v, depth + 1)) for k, v in x.items()), "
            "sorted((str(k), snap(v, depth + 1)) for k, v in vars(x).items()) if hasattr(x, '__dict__') and depth < 4 else None)\n"
            "    if isinstance(x, (list, tuple)):\n        return [snap(v, depth + 1) for v in x]\n"
            "    if hasattr(x, '__dict__') and not callable(x):\n        return ('obj', sorted((k, snap(v, depth + 1)) for k, v in vars(x).items()))\n    return x\n")
    envs = {}
    exec(SNAP, envs)
    snap = envs["snap"]

    class O:      # (module-level name needed for pickling objects of a locally defined class)
        pass
    globals()["O"] = O
    O.__qualname__ = "O"
    for name, (setup, root, follow) in SC.items():
        for route in ("pickle", "deepcopy"):
            key = f"containers {name} {route}"
            cp = "pickle.loads(pickle.dumps(m))" if route == "pickle" else "copy.deepcopy(m)"
            scr = PRELUDE + "import xdeps, pickle, copy\n" + SNAP + setup.replace("globals()['O'] = O\n", "") + f"\nm2 = {cp}\nr2 = m2.containers[{root!r}]\n" + \
                "assert snap(r._owner) == snap(r2._owner), (snap(r._owner), snap(r2._owner))\n" + "".join(
                    f"{st}\n{st.replace('r', 'r2', 1)}\nassert snap(r._owner) == snap(r2._owner), ({st!r}, snap(r._owner), snap(r2._owner))\n" for st in follow)
            env = dict(xdeps=xdeps_mod(), pickle=pickle, copy=copy, O=O)
            try:
                exec(setup.replace("class O:\n    pass\nglobals()['O'] = O\n", ""), env)
                m = env["m"]
                m2 = pickle.loads(pickle.dumps(m)) if route == "pickle" else copy.deepcopy(m)
            except Exception as ex:      # noqa
                rac.fail(key, f"C12 {name}: {route} of the manager raised {type(ex).__name__}: {ex}", scr, "__reduce__")
                continue
            r, r2 = env["r"], m2.containers[root]
            rac.case(key, sample=dict(scenario=name, route=route))
            bad = None
            if r2._owner is r._owner:
                bad = "the copy shares its container with the original"
            elif type(r2) is not type(r):
                bad = f"the restored top-level reference is a {type(r2).__name__}, the original a {type(r).__name__}"
            elif snap(r._owner) != snap(r2._owner):
                bad = f"restored contents {snap(r2._owner)} != original {snap(r._owner)}"
            else:
                for st in follow:
                    try:
                        exec(st, dict(r=r))
                        exec(st, dict(r=r2))
                    except Exception as ex:      # noqa
                        bad = f"{st} raised {type(ex).__name__}: {ex}"
                        break
                    if snap(r._owner) != snap(r2._owner):
                        bad = f"after {st} on both: original {snap(r._owner)}, restored {snap(r2._owner)}"
                        break
            if bad:
                rac.fail(key, f"C12 {name} ({route}): {bad}", scr, "AttrDict")
    rac.section("used+cross-process", "(a) a manager on which the read-only entry points were USED before it is pickled (gen_fun, mk_fun, find_deps, dump, "
                "verify, clone, copy, a failed frozen assignment): pickling succeeds and the restored manager follows mirrored assignments; (b) a manager "
                "pickled by one interpreter and restored by ANOTHER with a different string-hash seed (PYTHONHASHSEED 1 -> 2), then assigned to: "
                "equal to a manager built afresh in the restoring interpreter", "8 prior uses; 3 managers across two processes")
    US = '''
import xdeps, pickle
def mku():
    d = dict(a=1.0, b=2.0, c=0.0, e=0.0, n=dict(x=1.0, y=0.0), l=[1.0, 2.0])
    m = xdeps.Manager(); r = m.ref(d, "d")
    r["c"] = r["a"] * 2 + r["b"]; r["n"]["y"] = r["n"]["x"] + r["c"]; r["e"] = abs(r["l"][0] - r["c"]); r["l"][1] = r["a"] + 1
    return d, m, r
FOLLOW = ["r['a'] = 4.0", "r['n']['x'] = -2.0", "r['l'][0] = 9.0", "r['b'] = r['a'] * 3", "r['a'] = 0.5"]
'''
    uenv = {}
    exec(US, uenv)
    uses = {"gen_fun": "f = m.gen_fun('setter', x=r['a'], y=r['b']); f(2.0, 3.0)", "mk_fun": "m.mk_fun('s', x=r['a'])", "find_deps": "m.find_deps([r['a']])",
            "dump+verify": "m.dump(); m.verify()", "clone+copy": "m.clone(); m.copy()",
            "frozen assignment refused": "m.freeze_tree()\ntry:\n    r['e'] = r['a'] + 1\nexcept ValueError:\n    pass\nm.unfreeze_tree()",
            "gen_fun twice": "m.gen_fun('s1', x=r['a'])(1.5); m.gen_fun('s1', x=r['a'])(2.5); m.gen_fun('s2', y=r['n']['x'])(0.25)",
            "tasks run by hand": "m.run_tasks(); m.find_tasks()"}
    for uname, use in uses.items():
        body = (f"d, m, r = mku()\n{use}\nm2 = pickle.loads(pickle.dumps(m))\nr2 = m2.containers['d']; d2 = r2._owner\nassert d2 == d and d2 is not d\n"
                "for st in FOLLOW:\n    exec(st, dict(r=r)); exec(st, dict(r=r2))\n    assert d == d2, (st, d, d2)\n")
        rac.case(("used", uname), sample=dict(used_before_pickling=uname))
        try:
            d, m, r = uenv["mku"]()
            exec(use, dict(m=m, r=r))
            m2 = pickle.loads(pickle.dumps(m))
            r2 = m2.containers["d"]
            d2 = r2._owner
            bad = None if (d2 == d and d2 is not d) else f"restored data {d2} vs {d}"
            for st in uenv["FOLLOW"]:
                if bad:
                    break
                exec(st, dict(r=r))
                exec(st, dict(r=r2))
                if d != d2:
                    bad = f"after {st} on both: original {d}, restored {d2}"
            if bad:
                rac.fail(f"used {uname}", f"C12 manager used before pickling ({uname}): {bad}", PRELUDE + US + body, "Manager")
        except Exception as ex:     # noqa
            rac.fail(f"used {uname}", f"C12 manager used before pickling ({uname}): {type(ex).__name__}: {ex}", PRELUDE + US + body, "Manager")
    import subprocess
    import tempfile
    XP = US + '''
import sys
def mkx(kind):
    d, m, r = mku()
    if kind == "attr":
        m = xdeps.Manager(); r = m.ref(label="d")           # the library's own container, attribute style
        r.a = 1.0; r.b = 2.0; r.c = r.a * 2 + r.b; r.e = abs(r.c - r.b)
        d = r._owner
    if kind == "used":
        m.find_deps([r["a"]]); r["a"] = 1.25
    return d, m, r
FOLLOWX = {"dict": FOLLOW, "used": FOLLOW, "attr": ["r.a = 4.0", "r.b = r.a * 3", "r.a = 0.5"]}
kind, path, role = sys.argv[1], sys.argv[2], sys.argv[3]
if role == "dump":
    d, m, r = mkx(kind)
    pickle.dump(m, open(path, "wb"))
else:
    m2 = pickle.load(open(path, "rb")); r2 = m2.containers["d"]; d2 = r2._owner
    d, m, r = mkx(kind)
    assert dict(d2) == dict(d), ("restored data", d2, d)
    for st in FOLLOWX[kind]:
        exec(st, dict(r=r)); exec(st, dict(r=r2))
        assert dict(d) == dict(d2), (st, "built here", dict(d), "restored from the other interpreter", dict(d2))
    m2.verify()
    print("ok")
'''
    for kind in ("dict", "attr", "used"):
        rac.case(("cross-process", kind), sample=dict(manager=kind, seeds=(1, 2)))
        with tempfile.TemporaryDirectory() as td:
            sp, pk = os.path.join(td, "xp.py"), os.path.join(td, "m.pkl")
            open(sp, "w").write(XP)
            outs = []
            for role, seed in (("dump", "1"), ("load", "2")):
                p = subprocess.run([sys.executable, sp, kind, pk, role], capture_output=True, text=True, timeout=120,
                                   env=dict(os.environ, PYTHONHASHSEED=seed))
                outs.append(p)
                if p.returncode != 0:
                    break
            if outs[-1].returncode != 0:
                rac.fail(f"cross-process {kind}", f"C12 manager ({kind}) pickled under PYTHONHASHSEED=1 and restored under PYTHONHASHSEED=2: "
                         + outs[-1].stderr.strip().splitlines()[-1][:400],
                         PRELUDE + "import subprocess, sys, os, tempfile\nXP = " + repr(XP) + "\ntd = tempfile.mkdtemp(); sp = os.path.join(td, 'xp.py'); open(sp, 'w').write(XP)\n"
                         f"for role, seed in (('dump', '1'), ('load', '2')):\n    subprocess.run([sys.executable, sp, {kind!r}, os.path.join(td, 'm.pkl'), role], check=True, env=dict(os.environ, PYTHONHASHSEED=seed))\n",
                         "Manager")
    return rac.finish()


def xdeps_mod():
    import xdeps
    return xdeps


if __name__ == "__main__":
    sys.exit(main())
