"""C01 bounded stand-in: after every assignment, every location equals what the pull-model
oracle (rac/mgrgen.py) computes from the definitions and the last assigned values.

Sections: `histories` exhaustive over the operation alphabet up to a length bound;
`random` longer random histories; `chains` long dependency chains, consumer-before-producer.
A mismatch whose history has the signature of known finding K1 (two expression-defined
members of one nested container, one feeding the other) is keyed "K1:"; anything else is
keyed by its history."""
import itertools
import os
import sys
sys.path.insert(0, os.path.dirname(os.path.dirname(os.path.abspath(__file__))))
from rac.common import Rac, PRELUDE
from rac import mgrgen as G


def run_history(rac, ops, section_fn="Manager.set_value"):
    w, orc = G.World(), G.Oracle()
    done = []
    for op in ops:
        if not G.legal(orc, op):
            return False
        done.append(op)
        orc.apply(op)
        try:
            w.apply(op)
            exp, act = orc.expected(), w.actual()
            bad = [(loc, exp[loc], act[loc]) for loc in G.LOCS if not G.close(exp[loc], act[loc])]
            what = None if not bad else "stale/wrong values: " + "; ".join(
                f"{G.locstr(l)} is {a!r}, definition gives {e!r}" for l, e, a in bad[:3])
        except Exception as ex:     # noqa
            what = f"raised {type(ex).__name__}: {ex}"
            bad = [None]
        if bad:
            hist = "; ".join(G.opstr(o) for o in done)
            k1 = orc.sibling_feed() or G.declared_cycle(w.m)
            key = ("K1:sibling-feed " if k1 else "history ") + hist
            tail = "exp = %r\nimport math\n" % {G.locstr(l): v for l, v in orc.expected().items()} + \
                "act = {k: eval(k) for k in exp}\nbad = {k: (act[k], exp[k]) for k in exp if abs(act[k]-exp[k]) > 1e-9*max(1,abs(exp[k]))}\n" \
                "assert not bad, ('location: (actual, expected by its definition)', bad)\nprint('all locations consistent')\n"
            rac.fail(key, f"C01 after [{hist}]: {what}", G.history_script(done, tail), section_fn)
            return True
    return True


def main():
    rac = Rac("C01")
    quick = rac.tier == "quick"
    alpha = G.op_alphabet(small=True)
    L = 3 if quick else 4
    rac.section("histories", f"every history of length <= {L} over an alphabet of {len(alpha)} operations "
                "(assign value / expression / unregister / in-place) on dict-in-dict, list-in-dict and attribute "
                "containers, acyclic data flow; values compared after every step; non-trivial = at least one "
                "expression definition", f"length<={L}, |alphabet|={len(alpha)}")
    for n in range(1, L + 1):
        for ops in itertools.product(alpha, repeat=n):
            if n > 1 and rac.out_of_time(0.6):
                rac.sections["histories"]["exhaustive"] = False
                rac.exhaustive = False
                break
            ok = run_history(rac, ops)
            if ok:
                rac.case(ops, nontrivial=any(o[0] == "expr" for o in ops),
                         sample=[G.opstr(o) for o in ops])
    rac.section("known-finding-witness", "the recorded input of known finding K1", "1 history")
    k1 = [("expr", ("n", "x"), "dbl", (("a",),)), ("expr", ("n", "z"), "mix", (("n", "y"), ("b",))),
          ("expr", ("n", "y"), "inc", (("n", "x"),)), ("val", ("a",), 5.0)]
    run_history(rac, k1)
    rac.case(tuple(k1), sample=[G.opstr(o) for o in k1])
    calpha = list(G.CONTAINER_OPS) + [("expr", ("n", "x"), "dbl", (("a",),)), ("expr", ("l", 0), "rsub", (("b",),)),
                                      ("val", ("a",), 5.0), ("val", ("n", "y"), 5.0), ("iop", ("n", "y"), "-=", 3.0)]
    LC = 3 if quick else 4
    rac.section("containers", f"every history of length <= {LC} over {len(calpha)} operations around containers read AS A WHOLE: definitions "
                "f.tot(d['n']) / f.tot(d['l']) (a function reached through a reference), assignments to members nobody reads one by one, whole "
                "containers replaced by value (only while no member is expression-defined, as the statement requires), members defined by "
                "expressions; values compared after every step; non-trivial = a whole-container definition is present",
                f"length<={LC}, |alphabet|={len(calpha)}")
    for n in range(1, LC + 1):
        for ops in itertools.product(calpha, repeat=n):
            if n > 2 and rac.out_of_time(0.7):
                rac.sections["containers"]["exhaustive"] = False
                rac.exhaustive = False
                break
            if run_history(rac, ops):
                rac.case(ops, nontrivial=any(o[0] == "expr" and o[2] in G.CTEMPLATES for o in ops), sample=[G.opstr(o) for o in ops])
    rac.section("random", "random histories of length 6..14 over all locations and templates, half of them with whole-container reads and "
                "container replacements (seeded)", "200 histories quick / 3000 thorough", exhaustive=False)
    for k in range(200 if quick else 3000):
        ops = G.random_history(rac.rng, rac.rng.randint(6, 14), containers=bool(k % 2))
        run_history(rac, ops)
        rac.case(tuple(ops), nontrivial=any(o[0] == "expr" for o in ops), sample=[G.opstr(o) for o in ops])
        if rac.out_of_time(0.85):
            break
    rac.section("inplace-ops", "each of the 13 in-place operators applied through a reference to (a) a plain location and (b) an "
                "expression-defined location, with dependants, followed by a change of an upstream input; every location "
                "compared with direct Python evaluation (old expression (op) operand, re-evaluated on the new inputs)",
                "13 operators x 2 kinds x 3 operand values")
    import operator as _op
    IOPS = [("+=", _op.add), ("-=", _op.sub), ("*=", _op.mul), ("/=", _op.truediv), ("//=", _op.floordiv), ("%=", _op.mod),
            ("**=", _op.pow), ("@=", None), ("<<=", _op.lshift), (">>=", _op.rshift), ("&=", _op.and_), ("|=", _op.or_), ("^=", _op.xor)]
    for sym, fn in IOPS:
        if fn is None:
            continue
        for operand in ((3, 2, 5) if sym in ("<<=", ">>=", "&=", "|=", "^=") else (2.5, 3, -1.5)):
            for kind in ("plain", "defined"):
                isint = sym in ("<<=", ">>=", "&=", "|=", "^=")
                src = ["import xdeps", f"d = {{'a': {7 if isint else 7.25!r}, 'b': {4 if isint else 1.75!r}, 'x': 0, 'y': 0}}", "m = xdeps.Manager(); r = m.ref(d, 'd')"]
                if kind == "defined":
                    src.append("r['x'] = r['a'] + r['b']" if not isint else "r['x'] = r['a'] | r['b']")
                else:
                    src.append(f"r['x'] = {9 if isint else 9.5!r}")
                src += ["r['y'] = r['x'] * 2", f"r['x'] {sym} {operand!r}", f"r['a'] = {12 if isint else 10.5!r}"]
                env = {}
                key = f"inplace {sym} {operand} {kind}"
                a0, b0 = (7, 4) if isint else (7.25, 1.75)
                a1 = 12 if isint else 10.5
                try:
                    base = (a1 | b0 if isint else a1 + b0) if kind == "defined" else (9 if isint else 9.5)
                    want_x = fn(base, operand)
                    want = dict(x=want_x, y=want_x * 2)
                except Exception:      # noqa
                    continue
                scr = PRELUDE + "\n".join(src) + f"\nprint(d)\nassert d['x'] == {want['x']!r} and d['y'] == {want['y']!r}, d\n"
                rac.case((sym, operand, kind), sample=dict(op=sym, operand=operand, kind=kind))
                try:
                    exec("\n".join(src), env)
                    d_ = env["d"]
                    if not (G.close(d_["x"], want["x"]) and G.close(d_["y"], want["y"])) or type(d_["x"]) is not type(want["x"]):
                        rac.fail(key, f"C01 {' ; '.join(src[3:])}: x = {d_['x']!r}, y = {d_['y']!r}; Python gives x = {want['x']!r}, y = {want['y']!r}", scr,
                                 "MutableRef.__iadd__")
                except Exception as ex:      # noqa
                    rac.fail(key, f"C01 {' ; '.join(src[3:])}: raised {type(ex).__name__}: {ex}", scr, "MutableRef.__iadd__")
    rac.section("inplace-shared-values", "an in-place operator through a reference on a location whose value (an array, a list) is ALSO held by a second "
                "location that has a dependant: the second location was not assigned, so it keeps its value and its dependant stays consistent with it; "
                "the assigned location holds old value OP operand", "5 operators x 2 kinds of value")
    import numpy as _np
    for sym, fn in [("+=", _op.add), ("-=", _op.sub), ("*=", _op.mul), ("/=", _op.truediv), ("**=", _op.pow)]:
        for kind, mk in (("array", "np.array([1.0, 2.0, 3.0])"), ("int-array", "np.array([1, 2, 3])")):
            src = ["import xdeps, numpy as np", f"v = {mk}", "d = {'p': v, 'q': v, 's': 0.0}", "m = xdeps.Manager(); r = m.ref(d, 'd')",
                   "r['s'] = r['q'] * 2", f"r['p'] {sym} 2"]
            key = f"inplace-shared {sym} {kind}"
            scr = PRELUDE + "\n".join(src) + f"\norig = {mk}\nassert np.array_equal(d['q'], orig), ('q was not assigned', d['q'])\n" \
                "assert np.array_equal(d['s'], d['q'] * 2), ('dependant of q', d['s'], d['q'])\n"
            rac.case(key, sample=dict(op=sym, value=kind))
            env = {}
            try:
                exec("\n".join(src), env)
                d_ = env["d"]
                orig = eval(mk, {"np": _np})
                want_p = fn(orig, 2)
                if not _np.array_equal(d_["q"], orig) or not _np.array_equal(d_["s"], d_["q"] * 2) or not _np.array_equal(d_["p"], want_p):
                    rac.fail(key, f"C01 p and q hold the same {kind}; s = q * 2; p {sym} 2: p = {d_['p']!r}, q = {d_['q']!r}, s = {d_['s']!r}; "
                             f"q was not assigned (was {orig!r}) and s must equal q * 2", scr, "MutableRef.__iadd__")
            except Exception as ex:      # noqa
                rac.fail(key, f"C01 {key}: raised {type(ex).__name__}: {ex}", scr, "MutableRef.__iadd__")
    rac.section("redefinition-same-text", "a location re-defined by a DIFFERENT expression that prints like the old one (a revised function "
                "of the same name, two lambdas, a bound method of another object, keyword spelled differently), with a dependant, "
                "followed by a change of an upstream input: every location follows the NEW definition",
                "4 ways of building a same-printing expression x 3 target shapes")
    MK = {"revised function": ("def mk(k):\n    def calib(x):\n        return x * k + 1\n    return calib\nf1, f2 = mk(2.0), mk(10.0)",
                               lambda x: x * 2.0 + 1, lambda x: x * 10.0 + 1),
          "two lambdas": ("f1 = lambda x: -x\nf2 = lambda x: x + 100", lambda x: -x, lambda x: x + 100),
          "functools.partial": ("import functools, operator\nf1 = functools.partial(operator.mul, 3.0)\nf2 = functools.partial(operator.add, 3.0)",
                                lambda x: 3.0 * x, lambda x: 3.0 + x),
          "callable objects": ("class Gain:\n    def __init__(self, g): self.g = g\n    def __call__(self, x): return self.g * x\n"
                               "    def __repr__(self): return 'Gain'\nf1, f2 = Gain(2.0), Gain(5.0)", lambda x: 2.0 * x, lambda x: 5.0 * x)}
    for how, (mk, py1, py2) in MK.items():
        for tgt in ("r['y']", "r['n']['y']", "r['o'].y"):
            src = ["import xdeps", "from xdeps.refs import CallRef", "class Obj:\n    pass", mk,
                   "o = Obj(); o.y = 0.0", "d = {'x': 2.0, 'y': 0.0, 'z': 0.0, 'n': {'y': 0.0}, 'o': o}", "m = xdeps.Manager(); r = m.ref(d, 'd')",
                   f"{tgt} = CallRef(f1, (r['x'],), {{}})", f"r['z'] = {tgt} + 0.5", f"{tgt} = CallRef(f2, (r['x'],), {{}})", "mid = (" + tgt.replace("r[", "d[", 1) + ", d['z'])",
                   "r['x'] = 3.0", "end = (" + tgt.replace("r[", "d[", 1) + ", d['z'])"]
            want_mid, want_end = (py2(2.0), py2(2.0) + 0.5), (py2(3.0), py2(3.0) + 0.5)
            key = f"redefinition {how} {tgt}"
            scr = PRELUDE + "\n".join(src) + f"\nassert mid == {want_mid!r} and end == {want_end!r}, (mid, end)\n"
            rac.case(key, sample=dict(how=how, target=tgt))
            env = {}
            try:
                exec("\n".join(src), env)
            except Exception as ex:      # noqa
                rac.fail(key, f"C01 {key}: raised {type(ex).__name__}: {ex}", scr, "Manager.set_value")
                continue
            if env["mid"] != want_mid or env["end"] != want_end:
                rac.fail(key, f"C01 {tgt} = f1(x); z = {tgt} + 0.5; {tgt} = f2(x) [{how}]; x = 3.0: (y, z) = {env['mid']} then {env['end']}, "
                         f"the new definition gives {want_mid} then {want_end}", scr, "Manager.set_value")
    rac.section("owner-expressions", "definitions that take an item or an attribute OF AN EXPRESSION ((a + b)[1], (c * 2).imag, (a + b)[i]), "
                "with a dependant, followed by whole, element-wise and in-place changes of the inputs: every location follows its definition",
                "4 definitions x 4 kinds of change")
    OE = {"item of a sum": ("r['z'] = (r['a'] + r['b'])[1]", lambda d: (d['a'] + d['b'])[1]),
          "attribute of a product": ("r['z'] = (r['c'] * 2).imag", lambda d: (d['c'] * 2).imag),
          "computed item of a sum": ("r['z'] = (r['a'] + r['b'])[r['i']]", lambda d: (d['a'] + d['b'])[d['i']]),
          "item of an item of a sum": ("r['z'] = ((r['a'] + r['b']) * 2)[0] + 1", lambda d: ((d['a'] + d['b']) * 2)[0] + 1)}
    CH = {"whole input": "r['a'] = np.array([10.0, 20.0, 30.0])", "element of an input": "r['b'][1] = -5.0", "in-place": "r['a'] += 1.5",
          "other inputs": "r['c'] = 3 - 4j; r['i'] = 2"}
    import numpy as np
    for dn, (dsrc, py) in OE.items():
        for cn, csrc in CH.items():
            src = ["import xdeps", "import numpy as np",
                   "d = {'a': np.array([1.0, 2.0, 3.0]), 'b': np.array([0.5, 0.25, 0.125]), 'c': 1 + 2j, 'i': 0, 'z': 0.0, 'w': 0.0}",
                   "m = xdeps.Manager(); r = m.ref(d, 'd')", dsrc, "r['w'] = r['z'] * 10", csrc]
            key = f"owner-expression {dn} / {cn}"
            scr = PRELUDE + "\n".join(src) + "\nwant = " + {"item of a sum": "(d['a'] + d['b'])[1]", "attribute of a product": "(d['c'] * 2).imag",
                                                            "computed item of a sum": "(d['a'] + d['b'])[d['i']]",
                                                            "item of an item of a sum": "((d['a'] + d['b']) * 2)[0] + 1"}[dn] + \
                "\nassert d['z'] == want and d['w'] == want * 10, (d['z'], d['w'], want)\n"
            rac.case(key, sample=dict(definition=dsrc, change=csrc))
            env = {}
            try:
                exec("\n".join(src), env)
                d_ = env["d"]
                want = py(d_)
                if not (d_["z"] == want and d_["w"] == want * 10):
                    rac.fail(key, f"C01 {dsrc}; w = z * 10; then {csrc}: z = {d_['z']!r}, w = {d_['w']!r}, the definitions give {want!r}, {want * 10!r}",
                             scr, "MutableRef._get_dependencies")
            except Exception as ex:      # noqa
                rac.fail(key, f"C01 {key}: raised {type(ex).__name__}: {ex}", scr, "Manager.set_value")
    from rac import c01_tasks
    c01_tasks.run(rac)
    from rac import eqvals
    eqvals.run(rac, "C01")
    from rac import sametext
    sametext.run(rac, "C01")
    rac.section("chains", "chains v[i+1] = v[i] + 1 of length N defined consumer-before-producer, then v[0] assigned",
                "N in 50, 1500, 6000", exhaustive=False)
    import xdeps
    for n in (50, 1500, 6000):
        d = {i: 0.0 for i in range(n + 1)}
        m = xdeps.Manager()
        r = m.ref(d, "d")
        what = None
        try:
            for i in range(n, 0, -1):          # consumer before producer
                r[i] = r[i - 1] + 1
            r[0] = 7.0
            if any(d[i] != 7.0 + i for i in range(n + 1)):
                what = "stale value in chain"
        except Exception as ex:  # noqa
            what = f"raised {type(ex).__name__}"
        rac.case(("chain", n), sample=dict(chain=n))
        if what:
            rac.fail(f"chain {n}", f"C01 chain of {n} dependants: {what}",
                     PRELUDE + f"import xdeps\nn={n}\nd={{i:0.0 for i in range(n+1)}}\nm=xdeps.Manager(); r=m.ref(d,'d')\n"
                     "for i in range(n,0,-1): r[i] = r[i-1] + 1\nr[0] = 7.0\nassert all(d[i]==7.0+i for i in range(n+1))\n",
                     "Manager.set_value")
    return rac.finish()


if __name__ == "__main__":
    sys.exit(main())
