"""C01 bounded stand-in: after every assignment, every location equals what the pull-model
oracle (rac/mgrgen.py) computes from the definitions and the last assigned values.

Sections: `histories` exhaustive over the operation alphabet up to a length bound;
`random` longer random histories; `chains` long dependency chains, consumer-before-producer.
A mismatch whose history has the signature of known finding K1 (two expression-defined
members of one nested container, one feeding the other) is keyed "K1:"; anything else is
keyed by its history."""
import itertools
import os
import sys
sys.path.insert(0, os.path.dirname(os.path.dirname(os.path.abspath(__file__))))
from rac.common import Rac, PRELUDE
from rac import mgrgen as G


def run_history(rac, ops, section_fn="Manager.set_value"):
    w, orc = G.World(), G.Oracle()
    done = []
    for op in ops:
        if not G.legal(orc, op):
            return False
        done.append(op)
        orc.apply(op)
        try:
            w.apply(op)
            exp, act = orc.expected(), w.actual()
            bad = [(loc, exp[loc], act[loc]) for loc in G.LOCS if not G.close(exp[loc], act[loc])]
            what = None if not bad else "stale/wrong values: " + "; ".join(
                f"{G.locstr(l)} is {a!r}, definition gives {e!r}" for l, e, a in bad[:3])
        except Exception as ex:     # noqa
            what = f"raised {type(ex).__name__}: {ex}"
            bad = [None]
        if bad:
            hist = "; ".join(G.opstr(o) for o in done)
            k1 = orc.sibling_feed()
            key = ("K1:sibling-feed " if k1 else "history ") + hist
            tail = "exp = %r\nimport math\n" % {G.locstr(l): v for l, v in orc.expected().items()} + \
                "act = {k: eval(k) for k in exp}\nbad = {k: (act[k], exp[k]) for k in exp if abs(act[k]-exp[k]) > 1e-9*max(1,abs(exp[k]))}\n" \
                "assert not bad, ('location: (actual, expected by its definition)', bad)\nprint('all locations consistent')\n"
            rac.fail(key, f"C01 after [{hist}]: {what}", G.history_script(done, tail), section_fn)
            return True
    return True


def main():
    rac = Rac("C01")
    quick = rac.tier == "quick"
    alpha = G.op_alphabet(small=True)
    L = 3 if quick else 4
    rac.section("histories", f"every history of length <= {L} over an alphabet of {len(alpha)} operations "
                "(assign value / expression / unregister / in-place) on dict-in-dict, list-in-dict and attribute "
                "containers, acyclic data flow; values compared after every step; non-trivial = at least one "
                "expression definition", f"length<={L}, |alphabet|={len(alpha)}")
    for n in range(1, L + 1):
        for ops in itertools.product(alpha, repeat=n):
            if n > 1 and rac.out_of_time(0.6):
                rac.sections["histories"]["exhaustive"] = False
                rac.exhaustive = False
                break
            ok = run_history(rac, ops)
            if ok:
                rac.case(ops, nontrivial=any(o[0] == "expr" for o in ops),
                         sample=[G.opstr(o) for o in ops])
    rac.section("known-finding-witness", "the recorded input of known finding K1", "1 history")
    k1 = [("expr", ("n", "x"), "dbl", (("a",),)), ("expr", ("n", "z"), "mix", (("n", "y"), ("b",))),
          ("expr", ("n", "y"), "inc", (("n", "x"),)), ("val", ("a",), 5.0)]
    run_history(rac, k1)
    rac.case(tuple(k1), sample=[G.opstr(o) for o in k1])
    rac.section("random", "random histories of length 6..14 over all locations and templates (seeded)",
                "200 histories quick / 3000 thorough", exhaustive=False)
    for _ in range(200 if quick else 3000):
        ops = G.random_history(rac.rng, rac.rng.randint(6, 14))
        run_history(rac, ops)
        rac.case(tuple(ops), nontrivial=any(o[0] == "expr" for o in ops), sample=[G.opstr(o) for o in ops])
        if rac.out_of_time(0.85):
            break
    rac.section("chains", "chains v[i+1] = v[i] + 1 of length N defined consumer-before-producer, then v[0] assigned",
                "N in 50, 1500, 4000", exhaustive=False)
    import xdeps
    for n in (50, 1500, 4000):
        d = {i: 0.0 for i in range(n + 1)}
        m = xdeps.Manager()
        r = m.ref(d, "d")
        what = None
        try:
            for i in range(n, 0, -1):          # consumer before producer
                r[i] = r[i - 1] + 1
            r[0] = 7.0
            if any(d[i] != 7.0 + i for i in range(n + 1)):
                what = "stale value in chain"
        except Exception as ex:  # noqa
            what = f"raised {type(ex).__name__}"
        rac.case(("chain", n), sample=dict(chain=n))
        if what:
            rac.fail(f"chain {n}", f"C01 chain of {n} dependants: {what}",
                     PRELUDE + f"import xdeps\nn={n}\nd={{i:0.0 for i in range(n+1)}}\nm=xdeps.Manager(); r=m.ref(d,'d')\n"
                     "for i in range(n,0,-1): r[i] = r[i-1] + 1\nr[0] = 7.0\nassert all(d[i]==7.0+i for i in range(n+1))\n",
                     "Manager.set_value")
    return rac.finish()


if __name__ == "__main__":
    sys.exit(main())
