"""Scratch build of /repo's *current working tree* (Cython extension included).

The build directory is keyed by a hash of every tracked-looking source file, so a
check rebuilds whenever the tree changed and never otherwise; at most three builds
are kept.  Nothing here reads or writes /repo (rsync is read-only on the source).
"""
import fcntl
import hashlib
import os
import shutil
import subprocess
import sys
import time

REPO = os.environ.get("XDEPS_REPO", "/repo")
WORK = os.path.join(os.path.dirname(os.path.dirname(os.path.abspath(__file__))), ".work")
PY = "/venv/bin/python"


def tree_hash(repo=REPO):
    h = hashlib.sha256()
    files = []
    for root, dirs, fs in os.walk(os.path.join(repo, "xdeps")):
        dirs[:] = [d for d in dirs if d != "__pycache__"]
        for f in fs:
            if f.endswith((".py", ".pyx", ".pxd")):
                files.append(os.path.join(root, f))
    for f in ("setup.py", "pyproject.toml"):
        p = os.path.join(repo, f)
        if os.path.exists(p):
            files.append(p)
    for p in sorted(files):
        h.update(os.path.relpath(p, repo).encode())
        with open(p, "rb") as fh:
            h.update(fh.read())
    return h.hexdigest()[:20]


def get_build(repo=REPO, quiet=True):
    """-> path of a directory to put on PYTHONPATH; raises RuntimeError on build failure"""
    os.makedirs(os.path.join(WORK, "build"), exist_ok=True)
    key = tree_hash(repo)
    dest = os.path.join(WORK, "build", key)
    lock = open(os.path.join(WORK, "build", ".lock"), "w")
    fcntl.flock(lock, fcntl.LOCK_EX)
    try:
        if os.path.exists(os.path.join(dest, ".ok")):
            os.utime(dest, None)
            return dest
        shutil.rmtree(dest, ignore_errors=True)
        os.makedirs(dest)
        subprocess.run(["rsync", "-a", "--exclude", ".git", "--exclude", "*.so", "--exclude", "refs.c",
                        "--exclude", "build", "--exclude", "__pycache__", "--exclude", "*.egg-info",
                        "--exclude", "examples", "--exclude", "doc",
                        repo.rstrip("/") + "/", dest + "/"], check=True)
        t0 = time.time()
        p = subprocess.run([PY, "setup.py", "build_ext", "--inplace", "-q"], cwd=dest,
                           capture_output=True, text=True)
        if p.returncode != 0:
            shutil.rmtree(dest, ignore_errors=True)
            raise RuntimeError("build failed:\n" + p.stdout[-2000:] + p.stderr[-4000:])
        shutil.rmtree(os.path.join(dest, "build"), ignore_errors=True)
        try:
            os.unlink(os.path.join(dest, "xdeps", "refs.c"))
        except OSError:
            pass
        with open(os.path.join(dest, ".ok"), "w") as fh:
            fh.write(f"{time.time() - t0:.1f}\n")
        # prune: keep the three most recent builds
        bdir = os.path.join(WORK, "build")
        olds = sorted((d for d in os.listdir(bdir) if not d.startswith(".")),
                      key=lambda d: os.path.getmtime(os.path.join(bdir, d)), reverse=True)
        for d in olds[3:]:
            shutil.rmtree(os.path.join(bdir, d), ignore_errors=True)
        return dest
    finally:
        fcntl.flock(lock, fcntl.LOCK_UN)
        lock.close()


if __name__ == "__main__":
    print(get_build(quiet=False))
