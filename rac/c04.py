"""C04 bounded stand-in: differential evaluation on the compiled extension.  Every operator x
operand-slot configuration x value pair: the deferred expression's value must equal (value and
type) what Python computes on the operand values; an exception Python raises must propagate,
except ZeroDivisionError of / // % which must become NaN; again after the operands changed
through the manager; in-place operators on plain and on expression-defined locations."""
import itertools
import math
import operator
import os
import sys
sys.path.insert(0, os.path.dirname(os.path.dirname(os.path.abspath(__file__))))
from rac.common import Rac, PRELUDE
import numpy as np

BIN = ["add", "sub", "mul", "truediv", "floordiv", "mod", "pow", "and_", "or_", "xor", "lt", "le", "ge", "gt",
       "rshift", "lshift", "matmul"]
NAN_OPS = {"truediv", "floordiv", "mod"}
INPL = ["iadd", "isub", "imul", "imatmul", "itruediv", "ifloordiv", "imod", "ipow", "ilshift", "irshift",
        "iand", "ior", "ixor"]
UN = ["neg", "pos", "invert"]
POOL = [0, 1, -3, 7, 0.0, 2.5, -1.5, True, False, (1 + 2j), np.float64(3.0), np.array([1.0, 2.0]), np.array([[1.0, 2.0], [3.0, 4.0]])]
PYNUM = (int, float, bool, complex)


def same(a, b):
    if type(a) is not type(b):
        return False
    if isinstance(a, np.ndarray):
        return a.shape == b.shape and bool(np.all((a == b) | ((a != a) & (b != b))))
    if isinstance(a, tuple):
        return len(a) == len(b) and all(same(x, y) for x, y in zip(a, b))
    try:
        if a != a and b != b:
            return True
    except Exception:
        pass
    r = a == b
    return bool(r)


def pyeval(f, *args):
    """-> ('ok', value) | ('raise', exception type)"""
    try:
        with np.errstate(all="ignore"):
            return "ok", f(*args)
    except Exception as ex:      # noqa
        return "raise", type(ex)


def expect_binary(op, a, b):
    k, v = pyeval(getattr(operator, op), a, b)
    if k == "raise" and v is ZeroDivisionError and op in NAN_OPS:
        return "ok", float("nan")
    return k, v


def check(rac, key, what, got, want, script, fn):
    (gk, gv), (wk, wv) = got, want
    ok = gk == wk and (same(gv, wv) if gk == "ok" else gv is wv)
    if not ok:
        rac.fail(key, f"{what}: deferred gives {gk} {gv!r}, Python gives {wk} {wv!r}", script, fn)
    return ok


def lit(v):
    return repr(v).replace("array", "np.array").replace("np.float64", "np.float64")


def main():
    rac = Rac("C04")
    import xdeps
    quick = rac.tier == "quick"

    def fresh(vals):
        d = dict(vals)
        m = xdeps.Manager()
        return d, m, m.ref(d, "d")

    hdr = PRELUDE + "import operator, math, numpy as np, xdeps\n"
    rac.section("binary", "every binary operator x {ref-ref, ref-literal, literal-ref} x all ordered pairs of a pool of "
                f"{len(POOL)} values (ints incl. 0 and negatives, floats, bools, complex, numpy scalar, 1-d and 2-d arrays); "
                "literal operands are Python numbers; value, type and exception class compared with direct evaluation, then "
                "once more after both operands were changed through the manager; non-trivial = Python does not raise",
                f"{len(BIN)} operators x 3 slot configurations x {len(POOL)}^2 pairs")
    for op in BIN:
        f = getattr(operator, op)
        for a, b in itertools.product(POOL, POOL):
            if op == "matmul" and not (isinstance(a, np.ndarray) or isinstance(b, np.ndarray)):
                continue
            for cfg in ("rr", "rl", "lr"):
                if cfg == "rl" and type(b) not in PYNUM or cfg == "lr" and type(a) not in PYNUM:
                    continue
                d, m, r = fresh(dict(a=a, b=b, t=None))
                L = r["a"] if cfg[0] == "r" else a
                R = r["b"] if cfg[1] == "r" else b
                built = pyeval(f, L, R)
                want = expect_binary(op, a, b)
                script = hdr + f"d = dict(a={lit(a)}, b={lit(b)}); m = xdeps.Manager(); r = m.ref(d, 'd')\n" \
                    f"e = operator.{op}({'r[\"a\"]' if cfg[0]=='r' else lit(a)}, {'r[\"b\"]' if cfg[1]=='r' else lit(b)})\n" \
                    f"got = e._get_value(); want = operator.{op}(d['a'], d['b'])\nprint('deferred:', e, '->', repr(got), ' python:', repr(want))\n" \
                    "assert type(got) is type(want) and np.all((got == want) | ((got != got) & (want != want))), 'deferred value differs from Python'\n"
                if built[0] != "ok" or not xdeps.refs.is_ref(built[1]):
                    rac.fail(f"binary {op} {cfg} build", f"operator.{op} on a ref did not build a deferred expression: {built}",
                             script, f"BaseRef.__{op.strip('_')}__")
                    continue
                got = pyeval(built[1]._get_value)
                check(rac, f"binary {op} {cfg} {a!r} {b!r}", f"{op}({a!r}, {b!r}) [{cfg}]", got, want, script, f"{op}")
                rac.case((op, cfg, repr(a), repr(b)), nontrivial=want[0] == "ok", sample=dict(op=op, cfg=cfg, a=repr(a), b=repr(b)))
                # after the operands change through the manager
                if cfg == "rr" and type(a) in PYNUM and type(b) in PYNUM:
                    try:
                        r["t"] = built[1]
                        r["a"] = b
                        r["b"] = a
                        w2 = expect_binary(op, b, a)
                        if w2[0] == "ok":
                            check(rac, f"binary-update {op} {a!r} {b!r}", f"{op} after swapping operand values", ("ok", d["t"]), w2, script, op)
                    except Exception as ex:      # noqa: propagation of a raising expression is C18's subject
                        pass
    rac.section("nested", "expressions nested to depth 3 over three refs and literals, all operator triples from a "
                "reduced set, compared with direct evaluation", "depth 3", exhaustive=True)
    small = ["add", "sub", "mul", "truediv", "mod", "pow", "lt"]
    vals = dict(a=7, b=-2.5, c=0)
    for o1, o2, o3 in itertools.product(small, repeat=3):
        d, m, r = fresh(vals)
        f1, f2, f3 = (getattr(operator, o) for o in (o1, o2, o3))
        try:
            e = f3(f1(r["a"], 3), f2(2, f1(r["b"], r["c"])))
        except Exception as ex:      # noqa
            rac.fail(f"nested build {o1} {o2} {o3}", f"building nested expression raised {ex!r}", hdr, "BaseRef")
            continue

        def direct():
            def g(op, x, y):
                k, v = expect_binary(op, x, y)
                if k == "raise":
                    raise v()
                return v
            return g(o3, g(o1, 7, 3), g(o2, 2, g(o1, -2.5, 0)))
        want = pyeval(direct)
        got = pyeval(e._get_value)
        script = hdr + f"d = dict(a=7, b=-2.5, c=0); m = xdeps.Manager(); r = m.ref(d, 'd')\n" \
            f"e = operator.{o3}(operator.{o1}(r['a'], 3), operator.{o2}(2, operator.{o1}(r['b'], r['c'])))\nprint(e, e._get_value())\n"
        check(rac, f"nested {o1} {o2} {o3}", f"nested {o3}({o1}(a,3), {o2}(2, {o1}(b,c)))", got, want, script, "BinOpExpr._get_value")
        rac.case((o1, o2, o3), nontrivial=want[0] == "ok", sample=str(e))
    rac.section("unary+builtins", "neg/pos/invert, abs, round (one- and two-argument forms), divmod, trunc, floor, ceil over "
                "the scalar pool; value and type compared", "3 + 7 operations x pool")
    ops1 = [("neg", "operator.neg(X)"), ("pos", "operator.pos(X)"), ("invert", "operator.invert(X)"), ("abs", "abs(X)"),
            ("round", "round(X)"), ("trunc", "math.trunc(X)"), ("floor", "math.floor(X)"), ("ceil", "math.ceil(X)"),
            ("round2", "round(X, 1)"), ("roundneg", "round(X, -1)"), ("divmod", "divmod(X, 2)"), ("divmod0", "divmod(X, 0)")]
    for name, src in ops1:
        f = eval("lambda X: " + src, dict(operator=operator, math=math))
        for a in POOL:
            if isinstance(a, np.ndarray) and name in ("trunc", "floor", "ceil", "divmod0"):
                continue
            d, m, r = fresh(dict(a=a))
            built = pyeval(f, r["a"])
            want = pyeval(f, a)
            script = hdr + f"d = dict(a={lit(a)}); m = xdeps.Manager(); r = m.ref(d, 'd')\n" \
                f"X = r['a']; e = {src}; got = e._get_value()\nX = d['a']; want = {src}\nprint('deferred', repr(got), 'python', repr(want))\n" \
                "assert type(got) is type(want) and (np.all(got == want) or (got != got and want != want)), 'deferred value differs from Python'\n"
            if built[0] != "ok":
                rac.fail(f"unary {name} build", f"{name}(ref) raised {built[1]}", script, name)
                continue
            got = pyeval(built[1]._get_value)
            check(rac, f"unary {name} {a!r}", f"{name}({a!r})", got, want, script, f"BaseRef.__{name}__")
            rac.case((name, repr(a)), nontrivial=want[0] == "ok", sample=dict(op=name, a=repr(a)))
    rac.section("calls+access", "calls through a function container with positional/keyword refs and literals, item and "
                "attribute access with constant and computed keys", "fixed scenarios", exhaustive=False)

    class Fns:
        @staticmethod
        def f(x, y=10, *, k=1):
            return x * 100 + y * 10 + k

        @staticmethod
        def g(*args, **kwargs):
            # the callee sees everything: positional order, keyword names AND keyword order (PEP 468)
            return (args, tuple(kwargs.items()))
    for (x0, y0, k0) in itertools.product([1, 2.5], [3, -1], [0, 4]):
        d = dict(x=x0, y=y0, k=k0, idx=1, name="q", lst=[5, 6, 7], obj=type("O", (), {})())
        d["obj"].q = 42
        m = xdeps.Manager()
        r = m.ref(d, "d")
        fr = m.ref(Fns, "f")
        cases = [
            ("call-pos", fr.f(r["x"], r["y"]), Fns.f(x0, y0)),
            ("call-kw", fr.f(r["x"], k=r["k"]), Fns.f(x0, k=k0)),
            ("call-mixed", fr.f(2, r["y"], k=r["k"] + 1), Fns.f(2, y0, k=k0 + 1)),
            ("call-kw-order", fr.g(r["x"], zeta=r["y"], alpha=r["k"], mid=3), Fns.g(x0, zeta=y0, alpha=k0, mid=3)),
            ("call-kw-order-2", fr.g(zeta=1, beta=r["x"], alpha=r["y"] * 2), Fns.g(zeta=1, beta=x0, alpha=y0 * 2)),
            ("call-pos-order", fr.g(r["y"], r["x"], 7, r["k"]), Fns.g(y0, x0, 7, k0)),
            ("item-computed", r["lst"][r["idx"]], d["lst"][1]),
            ("item-const", r["lst"][2], 7),
            ("attr-const", r["obj"].q, 42),
            ("item-computed-expr", r["lst"][r["idx"] + 1], 7),
        ]
        for name, e, want in cases:
            got = pyeval(e._get_value)
            check(rac, f"{name} {x0} {y0} {k0}", name, got, ("ok", want), hdr + f"# scenario {name}\n", "CallRef._get_value")
            rac.case((name, x0, y0, k0), sample=name)
    # writing through item / attribute references: the location written is the one _get_value reads
    for keysrc, container, readback in [("r['lst'][r['idx']]", "lst", lambda d: d["lst"][1]), ("r['lst'][r['idx'] + 1]", "lst", lambda d: d["lst"][2]),
                                       ("r['lst'][-r['idx']]", "lst", lambda d: d["lst"][-1]), ("r['tbl'][r['name']]", "tbl", lambda d: d["tbl"]["q"]),
                                       ("r['tbl'][r['name'] + 'x']", "tbl", lambda d: d["tbl"]["qx"]), ("r['lst'][2]", "lst", lambda d: d["lst"][2]),
                                       ("r['obj'].q", "obj", lambda d: d["obj"].q), ("r['tbl']['q']", "tbl", lambda d: d["tbl"]["q"])]:
        for via in ("assign", "_set_value"):
            d = dict(idx=1, name="q", lst=[5, 6, 7], tbl={"q": 1, "qx": 2}, obj=type("O", (), {})())
            d["obj"].q = 42
            m = xdeps.Manager()
            r = m.ref(d, "d")
            before = dict(lst=list(d["lst"]), tbl=dict(d["tbl"]), q=d["obj"].q)
            scr = hdr + "d = dict(idx=1, name='q', lst=[5, 6, 7], tbl={'q': 1, 'qx': 2}, obj=type('O', (), {})()); d['obj'].q = 42\nm = xdeps.Manager(); r = m.ref(d, 'd')\n" + \
                (f"{keysrc} = -77\n" if via == "assign" else f"{keysrc}._set_value(-77)\n") + f"print(d['lst'], d['tbl'], d['obj'].q)\nassert ({keysrc})._get_value() == -77\n" \
                "assert sorted(map(str, d['tbl'])) == ['q', 'qx'] and len(d['lst']) == 3, 'stored under a wrong key'\n"
            try:
                if via == "assign":
                    exec(f"{keysrc} = -77", dict(r=r))
                else:
                    eval(keysrc, dict(r=r))._set_value(-77)
                ok = readback(d) == -77 and sorted(map(str, d["tbl"])) == ["q", "qx"] and len(d["lst"]) == 3
                changed = sum(1 for a_, b_ in zip(d["lst"], before["lst"]) if a_ != b_) + sum(1 for k_ in before["tbl"] if d["tbl"][k_] != before["tbl"][k_]) + (d["obj"].q != before["q"])
                ok = ok and changed == 1
            except Exception as ex:      # noqa
                ok = False
            rac.case(("write", keysrc, via), sample=dict(write=keysrc, via=via))
            if not ok:
                rac.fail(f"write {keysrc} {via}", f"writing -77 through {keysrc} ({via}) left lst={d['lst']}, tbl={d['tbl']}, obj.q={d['obj'].q}", scr, "ItemRef._set_value")
    rac.section("inplace", "all 13 in-place operators on a plain location (old value OP operand) and on an "
                "expression-defined location (old expression OP operand), then the source changes", "13 operators x value pairs")
    for iop in INPL:
        base = iop[1:]
        f = getattr(operator, {"and": "and_", "or": "or_"}.get(base, base))
        fi = getattr(operator, iop)
        for a, b in itertools.product([6, 2.5, -3, True, np.array([1.0, 2.0])], [2, 3.0, 1]):
            if iop == "imatmul":
                a, b = np.array([[1.0, 2.0], [3.0, 4.0]]), np.array([1.0, 1.0])
            want = pyeval(f, a, b)
            d, m, r = fresh(dict(a=a, s=4, t=0))
            script = hdr + f"d = dict(a={lit(a)}, s=4, t=0); m = xdeps.Manager(); r = m.ref(d, 'd')\nx = r['a']; x = operator.{iop}(x, {lit(b)}); r['a'] = x\nprint(d['a'], r['a']._expr)\n" \
                f"want = operator.{iop}({lit(a)}, {lit(b)})\nassert r['a']._expr is None, 'in-place operator on a plain location registered an expression'\nassert np.all(d['a'] == want) and type(d['a']) is type(want)\n"
            try:
                x = r["a"]
                x = fi(x, b)
                r["a"] = x
                got = ("ok", d["a"])
                expr_after = r["a"]._expr
            except Exception as ex:      # noqa
                got = ("raise", type(ex))
                expr_after = None
            if want[0] == "ok":
                ok = check(rac, f"inplace-plain {iop} {a!r} {b!r}", f"{iop} on a plain location holding {a!r} with {b!r}", got, want, script, f"MutableRef.__{iop}__")
                if ok and expr_after is not None:
                    rac.fail(f"inplace-plain-expr {iop}", f"{iop} on a plain location registered the expression {expr_after} (must store a value)",
                             script, f"MutableRef.__{iop}__")
            rac.case((iop, "plain", repr(a), repr(b)), nontrivial=want[0] == "ok", sample=dict(op=iop, a=repr(a), b=repr(b)))
            # expression-defined location:  t = s + 1 ;  t OP= b ;  s = 9
            if isinstance(a, np.ndarray) or iop == "imatmul":
                continue
            d, m, r = fresh(dict(s=a, t=0))
            try:
                r["t"] = r["s"] + 1
                x = r["t"]
                x = fi(x, b)
                r["t"] = x
                w1 = pyeval(lambda: f(a + 1, b))
                g1 = ("ok", d["t"])
                r["s"] = 9
                w2 = pyeval(lambda: f(9 + 1, b))
                g2 = ("ok", d["t"])
            except Exception as ex:      # noqa
                g1 = g2 = ("raise", type(ex))
                w1 = pyeval(lambda: f(a + 1, b))
                w2 = pyeval(lambda: f(10, b))
            sc2 = hdr + f"d = dict(s={lit(a)}, t=0); m = xdeps.Manager(); r = m.ref(d, 'd')\nr['t'] = r['s'] + 1\nx = r['t']; x = operator.{iop}(x, {lit(b)}); r['t'] = x\nprint(d['t'], r['t']._expr); r['s'] = 9; print(d['t'])\n"
            if w1[0] == "ok" and w2[0] == "ok":
                check(rac, f"inplace-expr {iop} {a!r} {b!r}", f"{iop} on t = s+1 (s={a!r}) with {b!r}", g1, w1, sc2, f"MutableRef.__{iop}__")
                check(rac, f"inplace-expr-update {iop} {a!r} {b!r}", f"{iop} on t = s+1 then s = 9", g2, w2, sc2, f"MutableRef.__{iop}__")
            rac.case((iop, "expr", repr(a), repr(b)), sample=dict(op=iop, on="expression", a=repr(a), b=repr(b)))
    rac.section("inplace-mutable", "in-place operators through a reference on a location holding a MUTABLE value (integer and float arrays, a list) that a "
                "second location also holds: the result is `old value OP operand` as the binary operator gives it (an integer array with a float "
                "operand becomes a float array; list + tuple raises TypeError) and the old value object itself -- still held by the other location -- is "
                "not altered", "13 operators x 4 stored values x 2 operands")
    import copy as _copy
    for iop in INPL:
        base = iop[1:]
        f = getattr(operator, {"and": "and_", "or": "or_"}.get(base, base))
        fi = getattr(operator, iop)
        stored = [np.array([1, 2, 3]), np.array([1.5, -2.0, 4.0]), [1, 2], np.array([[1, 2], [3, 4]])]
        for val, b in itertools.product(stored, [0.5, 2, (3,), [5]]):
            if isinstance(b, (tuple, list)) and not (isinstance(val, list) and iop in ("iadd", "imul")):
                continue
            orig = _copy.deepcopy(val)
            want = pyeval(f, _copy.deepcopy(val), b)
            d, m, r = fresh(dict(a=val, keep=val))
            key = f"inplace-mutable {iop} {val!r} {b!r}"
            script = hdr + f"val = {lit(val) if isinstance(val, np.ndarray) else repr(val)}\nd = dict(a=val, keep=val); m = xdeps.Manager(); r = m.ref(d, 'd')\n" \
                f"import copy; orig = copy.deepcopy(val)\ntry:\n    want = ('ok', operator.{base if base not in ('and', 'or') else base + '_'}(copy.deepcopy(val), {b!r}))\nexcept Exception as ex:\n    want = ('raise', type(ex))\n" \
                f"try:\n    x = r['a']; x = operator.{iop}(x, {b!r}); r['a'] = x\n    got = ('ok', d['a'])\nexcept Exception as ex:\n    got = ('raise', type(ex))\nprint(got, want, d['keep'])\n" \
                "assert got[0] == want[0], (got, want)\nif got[0] == 'ok':\n    assert np.array_equal(np.asarray(got[1]), np.asarray(want[1]), equal_nan=True) and type(got[1]) is type(want[1]) and getattr(got[1], 'dtype', None) == getattr(want[1], 'dtype', None), (got, want)\n" \
                "assert d['keep'] is val and np.array_equal(np.asarray(val), np.asarray(orig)), ('the old value object was altered', val, orig)\n"
            try:
                x = r["a"]
                x = fi(x, b)
                r["a"] = x
                got = ("ok", d["a"])
            except Exception as ex:      # noqa
                got = ("raise", type(ex))
            rac.case(("inplace-mutable", iop, repr(val), repr(b)), nontrivial=want[0] == "ok", sample=dict(op=iop, stored=repr(val), operand=repr(b)))
            bad = None
            if got[0] != want[0] or (got[0] == "raise" and got[1] is not want[1]):
                bad = f"gives {got}, the binary operator on the values gives {want}"
            elif got[0] == "ok" and not (np.array_equal(np.asarray(got[1]), np.asarray(want[1]), equal_nan=True) and type(got[1]) is type(want[1])
                                          and getattr(got[1], "dtype", None) == getattr(want[1], "dtype", None)):
                bad = f"stores {got[1]!r} ({getattr(got[1], 'dtype', type(got[1]).__name__)}), the binary operator on the values gives {want[1]!r} ({getattr(want[1], 'dtype', type(want[1]).__name__)})"
            elif d["keep"] is not val or not np.array_equal(np.asarray(val), np.asarray(orig)):
                bad = f"altered the old value object, which another location still holds: now {val!r}, was {orig!r}"
            if bad:
                rac.fail(key, f"{iop} through a reference on a location holding {orig!r} with operand {b!r}: {bad}", script, f"MutableRef.__{iop}__")
    rac.section("inplace-chains", "two and three successive in-place updates with literals on a location defined by an expression (x = a; x OP= c1; "
                "x OP= c2 [; x OP= c3]), values where the operation is not associative in floating point (1e16 + 1 + 1, 0.1 * 3 * 3, "
                "1e-300 * 1e200 * 1e200): bit-for-bit what Python gives on the plain values, also after the source changed",
                "4 operators x 4 value triples")
    chains = [("iadd", (1e16, 1.0, 1.0, 1.0)), ("iadd", (0.1, 0.2, 0.3, -0.6)), ("imul", (0.1, 3, 3, 3)), ("imul", (1e-300, 1e200, 1e200, 1e-200)),
              ("isub", (1e16, 1.0, 1.0, 1.0)), ("itruediv", (1.0, 3, 3, 3)), ("iadd", (1, 2, 3, 4)), ("imul", (2.5, 4, 0.5, 2))]
    for iop, (a0, c1, c2, c3) in chains:
        f = getattr(operator, iop[1:])
        for n_ops, a1 in ((2, a0 * 2 if iop != "itruediv" else 7.0), (3, -a0)):
            cs = (c1, c2, c3)[:n_ops]
            d, m, r = fresh(dict(a=a0, x=0.0))
            src = [f"d = dict(a={a0!r}, x=0.0); m = xdeps.Manager(); r = m.ref(d, 'd')", "r['x'] = r['a']"] + \
                  [f"r['x'] {dict(iadd='+=', imul='*=', isub='-=', itruediv='/=')[iop]} {c!r}" for c in cs]
            def py(a):
                v = a
                for c in cs:
                    v = f(v, c)
                return v
            key = f"inplace-chain {iop} {a0!r} {cs!r}"
            scr = hdr + "\n".join(src) + f"\nw1 = {a0!r}\nfor c in {cs!r}: w1 = operator.{iop[1:]}(w1, c)\nassert d['x'] == w1 and type(d['x']) is type(w1), (d['x'], w1)\n" \
                f"r['a'] = {a1!r}\nw2 = {a1!r}\nfor c in {cs!r}: w2 = operator.{iop[1:]}(w2, c)\nassert d['x'] == w2 and type(d['x']) is type(w2), (d['x'], w2)\n"
            rac.case(key, sample=dict(op=iop, start=a0, constants=cs))
            try:
                for line in src[1:]:
                    exec(line, dict(r=r))
                g1 = d["x"]
                r["a"] = a1
                g2 = d["x"]
            except Exception as ex:      # noqa
                rac.fail(key, f"{' ; '.join(src[1:])}: raised {type(ex).__name__}: {ex}", scr, f"MutableRef.__{iop}__")
                continue
            w1, w2 = py(a0), py(a1)
            if not (g1 == w1 and type(g1) is type(w1) and g2 == w2 and type(g2) is type(w2)):
                rac.fail(key, f"{' ; '.join(src[1:])}: x = {g1!r}, after a = {a1!r}: {g2!r}; Python on the plain values gives {w1!r} and {w2!r}", scr,
                         f"MutableRef.__{iop}__")
    return rac.finish()


if __name__ == "__main__":
    sys.exit(main())
