#!/bin/bash
# like try_mutant.sh but proof part only (--no-rac): shows what the deductive side alone decides
set -u
PATCH="$(realpath "$1")"; shift
SCR="$(mktemp -d /tmp/xdeps-mut-XXXXXX)"
trap 'rm -rf "$SCR"' EXIT
rsync -a --exclude .git --exclude '*.so' --exclude refs.c --exclude build --exclude __pycache__ --exclude examples --exclude doc /repo/ "$SCR/"
( cd "$SCR" && patch -p1 -s < "$PATCH" ) || { echo "patch failed"; exit 2; }
cd "$(dirname "$0")/.."
for P in "$@"; do
  XDEPS_REPO="$SCR" VERIF_EVIDENCE_DIR="$SCR/.evidence" ./check "$P" --tier "${TIER:-quick}" --no-rac 2>&1 | grep -E "^\[|VIOLATION|KNOWN|CHECKER|PROOF-(STALE|INCOMPLETE)|^#" | cut -c1-220 | head -${LINES_MAX:-12}
  echo "  -> exit ${PIPESTATUS[0]}"
done
