#!/bin/bash
# tools/stability.sh [N]: run every check's proof part N times (default 3), list obligations that needed > 2 s or a second solver
cd "$(dirname "$0")/.."
N=${1:-3}
for i in $(seq $N); do
  for P in $(ls props/C*.py | sed 's#props/##; s#\.py##'); do
    VERIF_EVIDENCE_DIR=.work/stab ./check $P --tier quick --no-rac > .work/stab-$P.log 2>&1 || echo "$P exit $?"
    .venv/bin/python - <<EOF
import json
ev = json.load(open(".work/stab/$P.json"))
c = ev["coverage"]
if c["obligations"] != c["discharged"] or c.get("slow_obligations"):
    print("$P run $i:", c["discharged"], "/", c["obligations"], [ (s["seconds"], s["backend"], s["obligation"][-70:]) for s in c.get("slow_obligations", [])][:4])
EOF
  done
done
