#!/bin/bash
# tools/verify_seed.sh <seed-dir> [<Cxx> ...]
#   seed-dir holds patch.diff, demo.py, meta.json.  Confirms on a scratch worktree of /repo's HEAD that
#   (1) demo passes without the patch, (2) the patch applies, the code builds and the 76 tests still pass,
#   (3) demo fails with the patch; then runs the given checks against the patched scratch tree.
# The worktree lives under /tmp and is removed afterwards; /repo itself is never modified.
set -u
SEED="$(realpath "$1")"; shift
WT="$(mktemp -d /tmp/xdeps-seed-XXXXXX)"
rmdir "$WT"
git -C /repo worktree add -q --detach "$WT" HEAD || exit 2
trap 'git -C /repo worktree remove --force "$WT" 2>/dev/null; rm -rf "$WT"; git -C /repo worktree prune' EXIT
# /repo's compiled refs extension is an untracked build product: after a sandbox restore it is the one of the PINNED commit
# (older than refs.py with its fix: commits).  Rebuild it in place first when it is missing or older than its source.
SO=$(ls /repo/xdeps/refs.cpython-*.so 2>/dev/null | head -1)
if [ -z "$SO" ] || [ "$SO" -ot /repo/xdeps/refs.py ]; then
  ( flock 9; SO=$(ls /repo/xdeps/refs.cpython-*.so 2>/dev/null | head -1)
    if [ -z "$SO" ] || [ "$SO" -ot /repo/xdeps/refs.py ]; then
      ( cd /repo && rm -f xdeps/refs.c xdeps/*.so && /venv/bin/python setup.py build_ext --inplace -q >/dev/null 2>&1; rm -rf build )
    fi ) 9>/tmp/xdeps-repo-build.lock
fi
cp /repo/xdeps/*.so "$WT/xdeps/" 2>/dev/null
PY=/venv/bin/python
run_demo() { ( cd "$WT" && PYTHONPATH="$WT" timeout 600 $PY "$SEED/demo.py" >/tmp/seed-demo.$$ 2>&1 ); echo $?; }
d0=$(run_demo)
echo "demo without patch: exit $d0"
( cd "$WT" && git apply "$SEED/patch.diff" 2>/dev/null ) || ( cd "$WT" && patch -p1 -s -F 3 --no-backup-if-mismatch < "$SEED/patch.diff" && git diff -- xdeps > "$SEED/patch.diff.rebased" && mv "$SEED/patch.diff.rebased" "$SEED/patch.diff" && echo "patch rebased onto HEAD with fuzz" ) || { echo "PATCH DOES NOT APPLY"; exit 2; }
if grep -q "xdeps/refs.py" "$SEED/patch.diff"; then
  ( cd "$WT" && rm -f xdeps/*.so && $PY setup.py build_ext --inplace -q >/dev/null 2>&1 ) || { echo "BUILD FAILED"; exit 2; }
fi
t=$( cd "$WT" && PYTHONPATH="$WT" $PY -m pytest -q -p no:cacheprovider --timeout=900 2>&1 | tail -1 )
echo "tests with patch: $t"
d1=$(run_demo)
echo "demo with patch: exit $d1"; tail -3 /tmp/seed-demo.$$; rm -f /tmp/seed-demo.$$
cd "$(dirname "$0")/.."
for P in "$@"; do
  XDEPS_REPO="$WT" VERIF_EVIDENCE_DIR="$WT/.evidence" ./check "$P" --tier "${TIER:-quick}" 2>&1 | grep -E "^\[|VIOLATION|KNOWN|CHECKER|PROOF-(STALE|INCOMPLETE)|^#" | head -${LINES_MAX:-10}
  echo "  -> check $P exit ${PIPESTATUS[0]}"
done
