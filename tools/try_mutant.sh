#!/bin/bash
# tools/try_mutant.sh <patch.diff> <Cxx> [<Cyy> ...]   -- run checks against a scratch copy of /repo with the patch applied
# (the copy lives under /tmp and is removed afterwards; /repo is never touched)
set -u
PATCH="$(realpath "$1")"; shift
SCR="$(mktemp -d /tmp/xdeps-mut-XXXXXX)"
trap 'rm -rf "$SCR"' EXIT
rsync -a --exclude .git --exclude '*.so' --exclude refs.c --exclude build --exclude __pycache__ --exclude examples --exclude doc /repo/ "$SCR/"
( cd "$SCR" && patch -p1 -s < "$PATCH" ) || { echo "patch failed"; exit 2; }
cd "$(dirname "$0")/.."
for P in "$@"; do
  XDEPS_REPO="$SCR" VERIF_EVIDENCE_DIR="$SCR/.evidence" ./check "$P" --tier "${TIER:-quick}" 2>&1 | grep -E "^\[|VIOLATION|KNOWN|CHECKER|PROOF-(STALE|INCOMPLETE)|^#" | head -${LINES_MAX:-12}
  echo "  -> exit ${PIPESTATUS[0]}"
done
