"""Regenerate the generated tables of DESIGN.md (between the STATUS markers) from evidence/, seeded/, mutants/RESULTS.json
and known_findings.json, so that the document reports what the machinery actually did."""
import glob
import importlib
import json
import os
import sys
ROOT = os.path.dirname(os.path.dirname(os.path.abspath(__file__)))
sys.path.insert(0, ROOT)


def main():
    out = []
    out.append("### 0.2 Per property: what is proved, what is bounded (generated from the evidence files)\n")
    out.append("| id | level | functions / blocks under contract (obligations discharged) | run-time contract evaluations (quick) |")
    out.append("|---|---|---|---|")
    for p in sorted(glob.glob(os.path.join(ROOT, "evidence", "C*.json"))):
        ev = json.load(open(p))
        c = ev["coverage"]
        fns = ", ".join(f"`{f['function']}`({f['discharged']}/{f['obligations']})" for f in c.get("functions", []))
        out.append(f"| {ev['property_id']} | {ev['level']} | {c['discharged']}/{c['obligations']}: {fns or '—'} | {c.get('evaluations', 0)} "
                   f"({c.get('distinct_nontrivial', 0)} distinct non-trivial) |")
    out.append("")
    kf = json.load(open(os.path.join(ROOT, "known_findings.json")))
    out.append("### 0.3 Defects of the pinned tree: repaired (`fix:` commits in /repo) and recorded\n")
    out.append("| property | commit | what failed |")
    out.append("|---|---|---|")
    for f in kf["fixed"]:
        out.append(f"| {f['property']} | `{f['commit']}` | {f['what']} |")
    for f in kf["findings"]:
        out.append(f"| {f['property']} | **known finding** `{f['key']}` | {f['what']} |")
    out.append("")
    out.append("### 0.4 Independently written property-breaking changes (`/verif/seeded/`) and the checks that catch them\n")
    out.append("Each change was written by a fresh sub-agent that saw only the property text and a scratch worktree; each was confirmed here "
               "(tests unchanged, demo fails with / passes without) by `tools/verify_seed.sh`.\n")
    out.append("`proof part alone`: verdict of the deductive part by itself (`--no-rac`) on the changed tree -- `violation` = a named obligation fails; "
               "`stale` = the change leaves the modelled subset or moves an anchor (undecided by policy, the run-time contracts decide); `held` = the "
               "changed function is not under contract for this property.\n")
    tally = {}
    for d in sorted(glob.glob(os.path.join(ROOT, "seeded", "*"))):
        mp = os.path.join(d, "meta.json")
        if os.path.exists(mp):
            v = json.load(open(mp)).get("proof_only", {}).get("verdict", "not run")
            tally[v] = tally.get(v, 0) + 1
    out.append("Totals over all seeds, proof part alone: " + ", ".join(f"{k}: {v}" for k, v in sorted(tally.items())) + ".\n")
    out.append("| seed | what it changes | needs | caught by | proof part alone |")
    out.append("|---|---|---|---|---|")
    for d in sorted(glob.glob(os.path.join(ROOT, "seeded", "*"))):
        mp = os.path.join(d, "meta.json")
        if not os.path.exists(mp):
            continue
        m = json.load(open(mp))
        rep = (m.get("first_report") or [""])
        how = next((r for r in rep if r.startswith("# ")), "")[2:140]
        out.append(f"| {os.path.basename(d)} | {str(m.get('summary', ''))[:160]} | {str(m.get('needs', ''))[:140]} | "
                   f"{', '.join(m.get('caught_by', [])) or '**missed**'} — {how} | {m.get('proof_only', {}).get('verdict', '')} |")
    out.append("")
    rp = os.path.join(ROOT, "mutants", "RESULTS.json")
    if os.path.exists(rp):
        res = json.load(open(rp))
        out.append("### 0.5 Own mutant corpus (`/verif/mutants/`): proof part alone vs full check\n")
        out.append("`proof` = `./check Cxx --no-rac` on the patched scratch copy; 1 = VIOLATION with the failed obligation named, 0 = held or "
                   "PROOF-STALE/-INCOMPLETE (undecided, left to the run-time part), 3 = checker broken.\n")
        out.append("| mutant | property | proof only | full check | first report |")
        out.append("|---|---|---|---|---|")
        for name, r in sorted(res.items()):
            out.append(f"| {name} | {r['property']} | {r['proof_only']['exit']} | {r['full_check']['exit']} | {r['proof_only']['first'][:110].replace('|', '/')} |")
        out.append("")
    text = "\n".join(out)
    p = os.path.join(ROOT, "DESIGN.md")
    s = open(p).read()
    a, b = s.index("<!-- STATUS:BEGIN -->"), s.index("<!-- STATUS:END -->")
    s = s[:a] + "<!-- STATUS:BEGIN -->\n" + text + "\n" + s[b:]
    open(p, "w").write(s)
    print("DESIGN.md status tables regenerated")


if __name__ == "__main__":
    main()
