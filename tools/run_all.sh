#!/bin/bash
# tools/run_all.sh [quick|thorough]  -- every check once on /repo's working tree, 4 at a time; prints one line per check
cd "$(dirname "$0")/.."
T=${1:-quick}
ls props/C*.py | sed 's#props/##; s#\.py##' | xargs -P 4 -I{} sh -c "./check {} --tier $T > .work/run-{}.log 2>&1; echo \"{} exit \$? : \$(grep -E '^\[C..\] (held|tier)' .work/run-{}.log | tail -1 | cut -c1-160)\""
