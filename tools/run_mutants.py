"""tools/run_mutants.py [pattern]: apply every patch under mutants/ to a scratch copy of /repo, run the check of the property it
targets (proof part alone, then the full check) and record the outcome in mutants/RESULTS.json."""
import glob
import json
import os
import re
import subprocess
import sys
from concurrent.futures import ThreadPoolExecutor
ROOT = os.path.dirname(os.path.dirname(os.path.abspath(__file__)))
pat = sys.argv[1] if len(sys.argv) > 1 else ""


def prop_of(name):
    m = re.search(r"(C\d\d)", name)
    return m.group(1)


def run(script, patch, prop):
    p = subprocess.run([os.path.join(ROOT, "tools", script), patch, prop], capture_output=True, text=True, env=dict(os.environ, LINES_MAX="6"))
    out = p.stdout + p.stderr
    m = re.search(r"-> exit (\d+)", out)
    first = next((ln for ln in out.splitlines() if ln.startswith(("# ", "PROOF-", "VIOLATION", "CHECKER"))), "")
    return dict(exit=int(m.group(1)) if m else None, first=first[:300], patch_failed="patch failed" in out)


def one(path):
    name = os.path.basename(path)[:-5]
    prop = prop_of(name)
    a = run("try_mutant_proof.sh", path, prop)
    b = run("try_mutant.sh", path, prop)
    return name, dict(property=prop, proof_only=a, full_check=b)


paths = sorted(p for p in glob.glob(os.path.join(ROOT, "mutants", "*.diff")) if pat in p)
res = {}
out = os.path.join(ROOT, "mutants", "RESULTS.json")
if os.path.exists(out) and pat:
    res = json.load(open(out))
with ThreadPoolExecutor(4) as ex:
    for name, r in ex.map(one, paths):
        res[name] = r
        print(name, r["property"], "proof:", r["proof_only"]["exit"], "full:", r["full_check"]["exit"], flush=True)
json.dump(res, open(out, "w"), indent=1, sort_keys=True)
