"""tools/seeds_proof_only.py: for every independently written change under seeded/, run the DEDUCTIVE part alone (--no-rac) of the check of
the property it was written against, on a scratch copy, and record in its meta.json whether the proof part by itself reports it
(`proof_only`: 'violation' + the first failed obligation / 'stale' + the reason / 'held')."""
import json
import os
import re
import subprocess
from concurrent.futures import ThreadPoolExecutor
ROOT = os.path.dirname(os.path.dirname(os.path.abspath(__file__)))


def one(name):
    d = os.path.join(ROOT, "seeded", name)
    prop = name.split("-")[0]
    p = subprocess.run([os.path.join(ROOT, "tools", "try_mutant_proof.sh"), os.path.join(d, "patch.diff"), prop], capture_output=True, text=True,
                       env=dict(os.environ, LINES_MAX="8"))
    out = p.stdout + p.stderr
    m = re.search(r"-> exit (\d+)", out)
    ex = int(m.group(1)) if m else None
    first = next((ln for ln in out.splitlines() if ln.startswith("# obligation")), "")
    stale = [ln for ln in out.splitlines() if ln.startswith("PROOF-STALE")]
    verdict = "violation" if ex == 1 else ("stale" if stale else ("held" if ex == 0 else f"exit {ex}"))
    meta = json.load(open(os.path.join(d, "meta.json")))
    meta["proof_only"] = dict(verdict=verdict, first=(first or (stale[0] if stale else ""))[:260])
    json.dump(meta, open(os.path.join(d, "meta.json"), "w"), indent=1)
    return name, verdict


import sys      # noqa: E402
ONLY = re.compile(sys.argv[1]) if len(sys.argv) > 1 else None       # optional: a regular expression on the seed names (e.g. 'C..-(19|20)$')
names = sorted(n for n in os.listdir(os.path.join(ROOT, "seeded")) if os.path.exists(os.path.join(ROOT, "seeded", n, "patch.diff"))
               and (ONLY is None or ONLY.search(n)))
tally = {}
with ThreadPoolExecutor(int(os.environ.get("SEED_JOBS", "4"))) as ex:
    for name, v in ex.map(one, names):
        tally[v] = tally.get(v, 0) + 1
        print(name, v, flush=True)
print(tally)
