"""Record the function/file hashes of the tree on which every obligation is discharged (run after every fix: commit).
   .venv/bin/python tools/make_baseline.py"""
import glob
import hashlib
import importlib
import json
import os
import sys
ROOT = os.path.dirname(os.path.dirname(os.path.abspath(__file__)))
sys.path.insert(0, ROOT)
from pyvc import extract, run      # noqa

funcs, files = {}, {}
mods = set()
for p in sorted(glob.glob(os.path.join(ROOT, "props", "C*.py"))):
    cfg = importlib.import_module("props." + os.path.basename(p)[:-3])
    mods.update(getattr(cfg, "CONTRACT_MODULES", []))
reg, contracts = run.load_registry(sorted(mods))
for c in contracts:
    if c.trusted:
        continue
    try:
        sm = extract.module(c.module)
        fdef, _ = sm.find(c.qualname)
        key = f"{c.module}:{c.qualname}" + (("@" + c.extra["variant"]) if c.extra.get("variant") else "")
        if c.extra.get("block"):
            from pyvc.num_engine import extract_block
            b = extract_block(fdef, c.extra["block"], list(c.params))
            funcs[key] = hashlib.sha256("\n".join(sm.lines[b.body[0].lineno - 1:b.body[-1].end_lineno]).encode()).hexdigest()[:16]
        else:
            funcs[key] = sm.sha(fdef)
        with open(sm.path, "rb") as fh:
            files[c.module] = hashlib.sha256(fh.read()).hexdigest()[:16]
    except Exception as ex:
        print("skip", c.qualname, ex)
import subprocess
head = subprocess.run(["git", "-C", extract.REPO, "rev-parse", "--short", "HEAD"], capture_output=True, text=True).stdout.strip()
json.dump(dict(repo_head=head, functions=funcs, files=files), open(os.path.join(ROOT, "baseline.json"), "w"), indent=1, sort_keys=True)
print(len(funcs), "functions,", len(files), "files at", head)
