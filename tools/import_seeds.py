"""tools/import_seeds.py <harvest-dir>: confirm each independently written property-breaking change (patch.diff + demo.py +
meta.json, produced by a sub-agent that saw only the property text) on a scratch worktree, run the property's own check
against it, and keep it under /verif/seeded/<name>/ with what was observed."""
import json
import os
import re
import shutil
import subprocess
import sys
from concurrent.futures import ThreadPoolExecutor
ROOT = os.path.dirname(os.path.dirname(os.path.abspath(__file__)))
H = sys.argv[1]
EXTRA = {"C01-2": ["C04"], "C02-1": ["C01"], "C03-2": ["C01"], "C09-2": ["C15"], "C15-1": ["C09"], "C01-1": ["C03"]}


def one(name):
    src = os.path.join(H, name)
    if not os.path.exists(os.path.join(src, "patch.diff")):
        return name, None
    prop = name.split("-")[0]
    checks = [prop] + EXTRA.get(name, [])
    p = subprocess.run([os.path.join(ROOT, "tools", "verify_seed.sh"), src] + checks, capture_output=True, text=True)
    out = p.stdout + p.stderr
    m0 = re.search(r"demo without patch: exit (\d+)", out)
    m1 = re.search(r"demo with patch: exit (\d+)", out)
    mt = re.search(r"tests with patch: (.*)", out)
    caught = re.findall(r"-> check (C\d+) exit 1", out)
    ran = re.findall(r"-> check (C\d+) exit (\d+)", out)
    ok = bool(m0 and m1 and mt and m0.group(1) == "0" and m1.group(1) != "0" and "76 passed" in mt.group(1))
    dst = os.path.join(ROOT, "seeded", name)
    os.makedirs(dst, exist_ok=True)
    for f in ("patch.diff", "demo.py"):
        shutil.copy(os.path.join(src, f), os.path.join(dst, f))
    meta = json.load(open(os.path.join(src, "meta.json")))
    viol = [ln for ln in out.splitlines() if ln.startswith(("VIOLATION", "# "))][:4]
    meta.update(dict(
        breaks_property=prop,
        confirmed=dict(valid=ok, demo_exit_without_patch=m0 and int(m0.group(1)), demo_exit_with_patch=m1 and int(m1.group(1)),
                       test_suite_with_patch=mt and mt.group(1).strip(),
                       how="tools/verify_seed.sh on a scratch git worktree of /repo HEAD (extension rebuilt when refs.py is touched)"),
        checks_run={c: ("VIOLATION (exit 1)" if e == "1" else f"exit {e}") for c, e in ran},
        caught_by=caught, first_report=viol))
    json.dump(meta, open(os.path.join(dst, "meta.json"), "w"), indent=1)
    return name, (ok, caught)


names = sorted(d for d in os.listdir(H) if os.path.isdir(os.path.join(H, d)))
with ThreadPoolExecutor(int(os.environ.get("SEED_JOBS", "4"))) as ex:
    for name, res in ex.map(one, names):
        print(name, res, flush=True)
